#!/bin/bash
# seedrun.sh <patch.diff> <check ids...> : apply a seeded change to /repo, run the quick checks, undo it
patch="$1"; shift
cd /repo && git apply "$patch" || { echo "patch does not apply"; exit 2; }
cd /verif
for id in "$@"; do echo "== $id"; timeout 1200 ./check "$id" --tier quick 2>&1 | grep -v "^KNOWN-FINDING" | tail -2; done
cd /repo && git checkout -- . && git status --short | grep -v "_build" 
