#!/bin/bash
# verify_seed.sh <worktree with SEEDED/> : confirm patch applies, tests pass with it, demo fails with it and passes without
wt="$1"; cd "$wt" || exit 2
git checkout -q -- lib util 2>/dev/null
[ -f SEEDED/patch.diff ] || { echo "no patch"; exit 2; }
git apply --check SEEDED/patch.diff || { echo "PATCH-DOES-NOT-APPLY"; exit 1; }
# unpatched: demo must pass
bash SEEDED/build.sh >/tmp/seed-unpatched.log 2>&1; u=$?
git apply SEEDED/patch.diff
(cmake -G Ninja -B _build >/dev/null 2>&1; cmake --build _build >/tmp/seed-build.log 2>&1 && cmake --build _build --target check >>/tmp/seed-build.log 2>&1; cmake --build _build >/dev/null 2>&1) || { echo "BUILD-FAILS"; git checkout -q -- lib util; exit 1; }
t=$(ctest --test-dir _build -j8 2>&1 | grep -c "100% tests passed")
bash SEEDED/build.sh >/tmp/seed-patched.log 2>&1; p=$?
git checkout -q -- lib util
echo "unpatched-demo-exit=$u patched-demo-exit=$p tests-pass-with-patch=$t"
[ "$u" = 0 ] && [ "$p" != 0 ] && [ "$t" = 1 ] && echo CONFIRMED || echo NOT-CONFIRMED
