#!/usr/bin/env python3
"""mutate.py — classical mutation operators over /repo/lib/*.c and util/econftool.c, run against the quick checks.

  mutate.py gen  <out.json>                 enumerate mutants (one token / one statement each)
  mutate.py run  <mutants.json> <k> <n> <outdir>   worker k of n: for each of its mutants apply it to a private
                                            worktree of /repo, run the checks that look at that file from a private
                                            copy of /verif (VERIF_REPO), stop at the first check that reports a
                                            violation; survivors are re-tried with all 20 checks and then with the
                                            repository's own 48 tests
Nothing is written to /repo or /verif (apart from <outdir>)."""
import json, os, re, subprocess, sys, shutil, tempfile, random

REPO = "/repo"
FILES = ["lib/getfilecontents.c", "lib/keyfile.c", "lib/mergefiles.c", "lib/readconfig.c", "lib/libeconf.c",
         "lib/libeconf_ext.c", "lib/helpers.c", "lib/get_value_def.c", "util/econftool.c"]
CHECKS_FOR = {
    "lib/getfilecontents.c": ["C02", "C13", "C05", "C15", "C17", "C04", "C16", "C06"],
    "lib/keyfile.c": ["C11", "C08", "C09", "C10"],
    "lib/mergefiles.c": ["C03", "C01", "C12", "C20"],
    "lib/readconfig.c": ["C01", "C12", "C06", "C13", "C20"],
    "lib/libeconf.c": ["C11", "C07", "C10", "C12", "C15", "C03", "C16"],
    "lib/libeconf_ext.c": ["C17", "C04"],
    "lib/helpers.c": ["C11", "C02", "C17"],
    "lib/get_value_def.c": ["C11"],
    "util/econftool.c": ["C19"],
}
ALL = ["C%02d" % i for i in range(1, 21)]

REL = [("<=", "<"), (">=", ">"), ("==", "!="), ("!=", "=="), ("&&", "||"), ("||", "&&")]

def strip_comments_strings(line):
    """blank out string/char literals and // comments, keeping columns"""
    out, i, n = list(line), 0, len(line)
    while i < n:
        c = line[i]
        if c == '"' or c == "'":
            q = c; j = i + 1
            while j < n and line[j] != q:
                if line[j] == "\\": j += 1
                j += 1
            for k in range(i + 1, min(j, n)): out[k] = " "
            i = j + 1; continue
        if line.startswith("//", i):
            for k in range(i, n): out[k] = " "
            break
        i += 1
    return "".join(out)

def gen(out):
    muts = []
    for f in FILES:
        src = open(os.path.join(REPO, f)).read().split("\n")
        in_block = False
        for ln, line in enumerate(src):
            code = line
            # crude block comment handling
            if in_block:
                if "*/" in code: in_block = False
                continue
            if code.lstrip().startswith("/*") or code.lstrip().startswith("*"):
                if "/*" in code and "*/" not in code: in_block = True
                continue
            if code.lstrip().startswith("#"): continue
            c = strip_comments_strings(code)
            if "/*" in c: c = c[:c.index("/*")] + " " * (len(c) - c.index("/*"))
            # relational / logical operators
            for a, b in REL:
                for m in re.finditer(re.escape(a), c):
                    muts.append(dict(file=f, line=ln, col=m.start(), old=a, new=b, kind="op"))
            for m in re.finditer(r"(?<![<>=!\-+])<(?![<=])", c):
                muts.append(dict(file=f, line=ln, col=m.start(), old="<", new="<=", kind="op"))
            for m in re.finditer(r"(?<![<>=!\-+])>(?![>=])", c):
                if m.start() > 0 and c[m.start() - 1] == "-": continue          # ->
                muts.append(dict(file=f, line=ln, col=m.start(), old=">", new=">=", kind="op"))
            # constants
            for m in re.finditer(r"([+\-]) ?1\b", c):
                muts.append(dict(file=f, line=ln, col=m.start(), old=m.group(0), new=m.group(1) + " 0", kind="const"))
                muts.append(dict(file=f, line=ln, col=m.start(), old=m.group(0), new=m.group(1) + " 2", kind="const"))
            for m in re.finditer(r"\btrue\b", c):
                muts.append(dict(file=f, line=ln, col=m.start(), old="true", new="false", kind="const"))
            for m in re.finditer(r"\bfalse\b", c):
                muts.append(dict(file=f, line=ln, col=m.start(), old="false", new="true", kind="const"))
            for m in re.finditer(r"(?<![\w.])0(?![\w.])", c):
                if re.search(r"(return|=|\[|\(|,)\s*$", c[:m.start()]) and "NULL" not in c:
                    muts.append(dict(file=f, line=ln, col=m.start(), old="0", new="1", kind="const"))
            # negated conditions
            for m in re.finditer(r"\bif \(!", c):
                muts.append(dict(file=f, line=ln, col=m.start(), old="if (!", new="if (", kind="neg"))
            # statement deletion: a whole line that is one call or one assignment
            s = c.strip()
            if s.endswith(";") and not re.match(r"(return|break|continue|goto|char|int|size_t|bool|const|static|struct|econf_|uint|FILE|unsigned|long|double|float|va_|}|else)", s) \
               and ("(" in s or "=" in s) and s.count(";") == 1 and not s.startswith("*") and "{" not in s:
                muts.append(dict(file=f, line=ln, col=len(line) - len(line.lstrip()), old=line.strip(), new=";", kind="del"))
            # return value of error codes
            m = re.search(r"return (ECONF_[A-Z_]+);", c)
            if m and m.group(1) != "ECONF_SUCCESS":
                muts.append(dict(file=f, line=ln, col=m.start(), old=m.group(0), new="return ECONF_SUCCESS;", kind="ret"))
    for i, m in enumerate(muts): m["id"] = i
    json.dump(muts, open(out, "w"), indent=0)
    kinds = {}
    for m in muts: kinds[m["kind"]] = kinds.get(m["kind"], 0) + 1
    print(len(muts), "mutants", kinds)

def apply(wt, m):
    p = os.path.join(wt, m["file"])
    src = open(p).read().split("\n")
    line = src[m["line"]]
    assert line[m["col"]:m["col"] + len(m["old"])] == m["old"], (m, line)
    src[m["line"]] = line[:m["col"]] + m["new"] + line[m["col"] + len(m["old"]):]
    open(p, "w").write("\n".join(src))

def sh(cmd, cwd=None, env=None, timeout=1800):
    try:
        p = subprocess.run(cmd, cwd=cwd, env=env, stdout=subprocess.PIPE, stderr=subprocess.STDOUT, timeout=timeout)
        return p.returncode, p.stdout.decode("utf-8", "replace")
    except subprocess.TimeoutExpired:
        return -9, "timeout"

def run(mfile, k, n, outdir):
    muts = [m for m in json.load(open(mfile)) if m["id"] % n == k]
    os.makedirs(outdir, exist_ok=True)
    wt = tempfile.mkdtemp(prefix="mwt-%d-" % k, dir="/tmp"); os.rmdir(wt)
    vc = tempfile.mkdtemp(prefix="mvc-%d-" % k, dir="/tmp")
    sh(["git", "-C", REPO, "worktree", "add", "-q", "--detach", wt, "HEAD"])
    sh(["rsync", "-a", "--exclude", ".git", "--exclude", "replays", "/verif/", vc + "/"])
    env = dict(os.environ, VERIF_REPO=wt)
    res_path = os.path.join(outdir, "worker%d.jsonl" % k)
    done = set()
    if os.path.exists(res_path):
        for l in open(res_path):
            try: done.add(json.loads(l)["id"])
            except Exception: pass
    out = open(res_path, "a")
    try:
        for m in muts:
            if m["id"] in done: continue
            sh(["git", "-C", wt, "checkout", "-q", "--", "."])
            try: apply(wt, m)
            except AssertionError:
                continue
            # does it compile at all?
            rc, o = sh(["gcc", "-fsyntax-only", "-D_GNU_SOURCE", "-w", "-I" + wt + "/include", "-I" + wt + "/lib", os.path.join(wt, m["file"])])
            r = dict(m)
            if rc != 0:
                r["verdict"] = "does-not-compile"
            else:
                caught = None
                for c in CHECKS_FOR[m["file"]]:
                    rc, o = sh(["./check", c, "--tier", "quick"], cwd=vc, env=env, timeout=900)
                    if rc != 0: caught = c; r["how"] = ("nfi" if "no-failing-input-found" in o else "input") if "VIOLATION" in o else "error:" + o[-200:]; break
                if not caught:
                    for c in [x for x in ALL if x not in CHECKS_FOR[m["file"]]]:
                        rc, o = sh(["./check", c, "--tier", "quick"], cwd=vc, env=env, timeout=900)
                        if rc != 0: caught = c; r["how"] = ("nfi" if "no-failing-input-found" in o else "input") if "VIOLATION" in o else "error:" + o[-200:]; break
                if caught:
                    r["verdict"] = "caught"; r["by"] = caught
                else:
                    # do the repository's own tests notice?
                    sh(["rm", "-rf", wt + "/_build"])
                    rc1, o1 = sh(["sh", "-c", "cmake -G Ninja -B _build >/dev/null 2>&1 && cmake --build _build --target check 2>&1 | tail -5"], cwd=wt, timeout=1200)
                    r["verdict"] = "survived-tests-pass" if "100% tests passed" in o1 else "killed-by-tests-only"
                    sh(["rm", "-rf", wt + "/_build"])
            out.write(json.dumps(r) + "\n"); out.flush()
    finally:
        sh(["git", "-C", REPO, "worktree", "remove", "--force", wt])
        shutil.rmtree(vc, ignore_errors=True)

if __name__ == "__main__":
    if sys.argv[1] == "gen": gen(sys.argv[2])
    elif sys.argv[1] == "run": run(sys.argv[2], int(sys.argv[3]), int(sys.argv[4]), sys.argv[5])
