#!/bin/sh
# refuse to commit a development that contains proof holes
cd "$(dirname "$0")/.."
if grep -n "Admitted\|admit\.\|^Axiom\|^Parameter\|^Conjecture" coq/*.v | grep -v "^coq/.*:.*(\*" ; then
  echo "proof holes present - not committing"; exit 1
fi
exit 0
