"""floatoracle.py — independent, exact model of what a correctly rounding
strtof/strtod returns for a text (round to nearest, ties to even), and of
printf("%.*g").  Used as the oracle for the floating-point getters/setters;
glibc's conversions themselves are trusted (DESIGN.md section 8)."""
import re, struct
from fractions import Fraction

FMT = {32: (24, -126, 127, 8), 64: (53, -1022, 1023, 11)}   # precision, emin, emax, exponent bits

def round_frac(x, bits):
    """x: non-negative Fraction -> IEEE bit pattern without sign (int)"""
    prec, emin, emax, ebits = FMT[bits]
    if x == 0:
        return 0
    # find e with 2^e <= x < 2^(e+1)
    e = x.numerator.bit_length() - x.denominator.bit_length()
    if Fraction(2) ** e > x: e -= 1
    if Fraction(2) ** (e + 1) <= x: e += 1
    e = max(e, emin)
    # scaled significand: x / 2^(e - prec + 1)
    q = x / (Fraction(2) ** (e - prec + 1))
    n = q.numerator // q.denominator
    rem = q - n
    if rem > Fraction(1, 2) or (rem == Fraction(1, 2) and n % 2 == 1):
        n += 1
    if n >= 2 ** prec:
        n //= 2; e += 1
    if e > emax:
        return ((2 ** ebits - 1) << (prec - 1))          # infinity
    if n < 2 ** (prec - 1):                               # subnormal (e == emin)
        return n
    return ((e + (2 ** (ebits - 1) - 1)) << (prec - 1)) | (n - 2 ** (prec - 1))

_dec = re.compile(rb'(\d+\.?\d*|\.\d+)([eE][+-]?\d+)?')
_hex = re.compile(rb'0[xX]([0-9a-fA-F]+\.?[0-9a-fA-F]*|\.[0-9a-fA-F]+)([pP][+-]?\d+)?')

def strtox(text, bits):
    """bytes -> bit pattern (int) or None when nothing is converted"""
    prec, emin, emax, ebits = FMT[bits]
    s = text.lstrip(b" \t\n\v\f\r")
    sign = 0
    if s[:1] in (b"+", b"-"):
        sign = 1 if s[:1] == b"-" else 0
        s = s[1:]
    signbit = sign << (bits - 1)
    low = s[:8].lower()
    if low.startswith(b"inf"):
        return signbit | ((2 ** ebits - 1) << (prec - 1))
    if low.startswith(b"nan"):
        return "nan"
    m = _hex.match(s)
    if m:
        mant = m.group(1); ex = m.group(2)
        ip, _, fp = mant.partition(b".")
        v = Fraction(int(ip + fp or b"0", 16), 16 ** len(fp))
        if ex: v *= Fraction(2) ** int(ex[1:])
        return signbit | round_frac(v, bits)
    m = _dec.match(s)
    if not m:
        return None
    mant = m.group(1); ex = m.group(2)
    ip, _, fp = mant.partition(b".")
    v = Fraction(int(ip + fp or b"0"), 10 ** len(fp))
    if ex:
        e = int(ex[1:])
        if e > 400: e = 400            # far beyond both ranges
        if e < -1200 - len(ip): return signbit   # underflows to zero
        v *= Fraction(10) ** e
    return signbit | round_frac(v, bits)

def fmt_g(bits_val, bits):
    """what printf("%.*g", FLT_DECIMAL_DIG / DBL_DECIMAL_DIG, x) prints under glibc"""
    prec, emin, emax, ebits = FMT[bits]
    digits = 9 if bits == 32 else 17
    sign = bits_val >> (bits - 1)
    expo = (bits_val >> (prec - 1)) & (2 ** ebits - 1)
    frac = bits_val & (2 ** (prec - 1) - 1)
    if expo == 2 ** ebits - 1:
        if frac: return ("-nan" if sign else "nan").encode()
        return ("-inf" if sign else "inf").encode()
    if bits == 32:
        x = struct.unpack("<f", struct.pack("<I", bits_val))[0]
    else:
        x = struct.unpack("<d", struct.pack("<Q", bits_val))[0]
    return ("%.*g" % (digits, x)).encode()
