(* driver.ml — runs scenario files over the extracted Coq model (model.ml).
   Reads commands (one per line) from the file given as argv[1], or stdin,
   and prints one canonical result line per command.  A line "reset" starts
   a new scenario (empty store). *)
open Model
open Stdlib
type string = Stdlib.String.t

(* ---------- conversions between OCaml and the extracted numbers ---------- *)
let rec pos_of_int (i : int) : positive =
  if i = 1 then XH
  else if i land 1 = 0 then XO (pos_of_int (i lsr 1))
  else XI (pos_of_int (i lsr 1))
let n_of_int i : n = if i = 0 then N0 else Npos (pos_of_int i)
let rec int_of_pos = function
  | XH -> 1 | XO p -> 2 * int_of_pos p | XI p -> 2 * int_of_pos p + 1
let int_of_n = function N0 -> 0 | Npos p -> int_of_pos p
let rec nat_of_int i : nat = if i = 0 then O else S (nat_of_int (i - 1))
let rec int_of_nat = function O -> 0 | S n -> 1 + int_of_nat n

let z_of_int i : z =
  if i = 0 then Z0 else if i > 0 then Zpos (pos_of_int i) else Zneg (pos_of_int (-i))
let z10 = z_of_int 10
(* decimal text -> Z, any size *)
let z_of_string (s : string) : z =
  let neg = String.length s > 0 && s.[0] = '-' in
  let start = if neg then 1 else 0 in
  let acc = ref Z0 in
  for i = start to String.length s - 1 do
    acc := Z.add (Z.mul !acc z10) (z_of_int (Char.code s.[i] - 48))
  done;
  if neg then Z.opp !acc else !acc
let string_of_z (v : z) : string =
  let neg, m = match v with Zneg p -> true, Zpos p | _ -> false, v in
  let rec go m acc =
    match m with
    | Z0 -> acc
    | _ -> let q = Z.div m z10 and r = Z.modulo m z10 in
           let d = match r with Z0 -> 0 | Zpos p -> int_of_pos p | Zneg _ -> 0 in
           go q (String.make 1 (Char.chr (48 + d)) ^ acc) in
  let s = match m with Z0 -> "0" | _ -> go m "" in
  if neg then "-" ^ s else s

(* ---------- strings ---------- *)
let hexd = "0123456789abcdef"
let str_of_bytes (l : n list) : string =
  let b = Buffer.create 16 in
  List.iter (fun c -> let i = int_of_n c in
              Buffer.add_char b hexd.[(i lsr 4) land 15]; Buffer.add_char b hexd.[i land 15]) l;
  Buffer.contents b
let enc (l : n list) = "x" ^ str_of_bytes l
let enc_opt = function None -> "-" | Some l -> enc l
let hexv c = match c with
  | '0'..'9' -> Char.code c - 48 | 'a'..'f' -> Char.code c - 87
  | 'A'..'F' -> Char.code c - 55 | _ -> failwith "hex"
let dec (s : string) : n list =
  (* s starts with 'x' *)
  let n = (String.length s - 1) / 2 in
  List.init n (fun i -> n_of_int (hexv s.[1 + 2*i] * 16 + hexv s.[2 + 2*i]))
let dec_opt (s : string) : n list option = if s = "-" then None else Some (dec s)
(* a configuration name "@/x/y": the harness puts the scratch root (without its leading '/') where the '@' is, so that
   the directory "" + "/" + name is below the scratch root; in the model's virtual tree the name is just "x/y" *)
(* a path component "@" in a tree path stands for the scratch root (see name_opt): absent in the virtual tree *)
let rec drop_at (l : n list) : n list =
  match l with
  | a :: b :: c :: rest when int_of_n a = 47 && int_of_n b = 64 && int_of_n c = 47 -> drop_at (c :: rest)
  | x :: rest -> x :: drop_at rest
  | [] -> []
let decp (s : string) : n list = drop_at (dec s)
let name_opt (s : string) : n list option =
  match dec_opt s with
  | Some (a :: b :: rest) when int_of_n a = 64 && int_of_n b = 47 -> Some rest
  | x -> x
let enc_list l = String.concat "," (List.map enc l)

let kind_of = function
  | "string" -> KString | "int" -> KInt | "int64" -> KInt64 | "uint" -> KUInt
  | "uint64" -> KUInt64 | "bool" -> KBool | "float" -> KFloat | "double" -> KDouble
  | k -> failwith ("kind " ^ k)

let def_of (s : string) : defval =
  if s = "-" then DNone
  else match s.[0] with
    | 's' -> DStr (dec_opt (String.sub s 2 (String.length s - 2)))
    | 'i' -> DInt (z_of_string (String.sub s 2 (String.length s - 2)))
    | 'b' -> DBool (s.[2] = '1')
    | 'f' -> DText (dec (String.sub s 2 (String.length s - 2)))
    | _ -> failwith "def"

let rc e = "rc=" ^ string_of_int (int_of_n (err_code e))

let show_entry (e : entry) =
  Printf.sprintf "%s %s %s %s %s %d %d" (enc e.e_group) (enc e.e_key) (enc_opt e.e_value)
    (enc_opt e.e_cbk) (enc_opt e.e_cav) (int_of_n e.e_line) (if e.e_quotes then 1 else 0)

let rec show_out (o : out) : string =
  match o with
  | OAll l -> "all " ^ String.concat "" (List.map (fun o -> show_out o ^ ";") l)
  | ORc e -> rc e
  | OStr (e, v) -> rc e ^ " v=" ^ enc_opt v
  | OInt (e, v) -> rc e ^ " z=" ^ string_of_z v
  | OBool (e, b) -> rc e ^ " b=" ^ (if b then "1" else "0")
  | OText (d, e, v) -> rc e ^ (if d then " dtext=" else " ftext=") ^ enc_opt v
  | OList (e, l) -> rc e ^ " l=" ^ enc_list l
  | OExt (e, x) ->
      Printf.sprintf "%s vals=%s file=%s line=%d cbk=%s cav=%s" (rc e) (enc_list x.x_values)
        (enc_opt x.x_file) (int_of_n x.x_line) (enc_opt x.x_cbk) (enc_opt x.x_cav)
  | OBytes (e, b) -> rc e ^ " bytes=" ^ enc b
  | ODump kf ->
      Printf.sprintf "dump n=%d spare=%d groups=%s d=%d c=%d path=%s |%s"
        (List.length kf.kf_entries) (int_of_nat kf.kf_spare) (enc_list kf.kf_groups)
        (int_of_n kf.kf_delim) (int_of_n kf.kf_comment) (enc_opt kf.kf_path)
        (String.concat "|" (List.map show_entry kf.kf_entries))
  | OTags (d, c) -> Printf.sprintf "tags d=%d c=%d" (int_of_n d) (int_of_n c)
  | OParse (e, l, f) -> if int_of_n (err_code e) = 0 then rc e else Printf.sprintf "%s line=%d file=%s" (rc e) (int_of_n l) (enc f)
  | ONoObj -> "noobj"

let parse_cmd (toks : string list) : cmd =
  let i s = int_of_string s in
  let o s = nat_of_int (i s) in
  match toks with
  | ["newkf"; a; d; c] -> CNewKeyfile (o a, n_of_int (i d), n_of_int (i c))
  | ["newini"; a] -> CNewIni (o a)
  | ["newempty"; a] -> CNewEmpty (o a)
  | ["parse"; a; path; content; dl; cm; py; jn] ->
      CParse (o a, dec path, dec content, dec dl, dec cm, py = "1", jn = "1")
  | ["parsepipe"; a; path; content; dl; cm] ->      (* the same bytes delivered through a named pipe: the same result *)
      CParse (o a, dec path, dec content, dec dl, dec cm, false, false)
  | ["set"; a; kd; g; k; text; zv] ->
      CSet (o a, kind_of kd, dec_opt g, dec_opt k, dec_opt text, z_of_string zv)
  | ["get"; a; kd; g; k; d] -> CGet (o a, kind_of kd, dec_opt g, dec_opt k, def_of d)
  | ["ext"; a; g; k] -> CGetExt (o a, dec_opt g, dec_opt k)
  | ["groups"; a] -> CGroups (o a)
  | ["keys"; a; g] -> CKeys (o a, dec_opt g)
  | ["merge"; d; a; b] -> CMerge (o d, o a, o b)
  | ["write"; a] -> CWrite (o a)
  | ["reread"; d; a] -> CReread (o d, o a)
  | ["dump"; a] -> CDump (o a)
  | ["getall"; a] -> CGetAll (o a)
  | ["path"; a] -> CPath (o a)
  | ["tags"; a] -> CTags (o a)
  | ["settags"; a; d; c] -> CSetTags (o a, n_of_int (i d), n_of_int (i c))
  | ["free"; a] -> CFree (o a)
  | ["opts"; a] -> COpts (o a)
  | ["errstring"; n] -> CErrString (n_of_int (i n))
  | _ -> failwith ("bad command: " ^ String.concat " " toks)

(* ---------- grammar ASTs (C02 and friends) ----------
   lines separated by '/', fields by ':', every field "x<hex>" or "-" *)
let parse_tc (s : string) : (n * n list) option =
  if s = "-" then None
  else match dec s with c :: t -> Some (c, t) | [] -> None
let parse_cline (s : string) : cline =
  match String.split_on_char ':' s with
  | ["B"; ws] -> LBlank (dec ws)
  | ["C"; ind; c; text] -> LComment (dec ind, List.hd (dec c), dec text)
  | ["S"; ind; name; post] -> LSection (dec ind, dec name, dec post)
  | ["K"; ind; key; b1; d; b2; q; v; post; tc] ->
      LKey { kl_indent = dec ind; kl_key = dec key; kl_b1 = dec b1;
             kl_d = (match dec_opt d with Some (c :: _) -> Some c | _ -> None);
             kl_b2 = dec b2; kl_val = (if q = "Q" then VQuoted (dec v) else VPlain (dec v));
             kl_post = dec post; kl_tc = parse_tc tc }
  | ["T"; ind; text; post; tc] -> LCont (dec ind, dec text, dec post, parse_tc tc)
  | _ -> failwith ("bad cline: " ^ s)
let parse_ast (s : string) : cline list =
  if s = "" || s = "-" then [] else List.map parse_cline (String.split_on_char '/' s)

let grammar_cmd st o dl cm ast path =
  let dl = dec dl and cm = dec cm in
  let ls = parse_ast ast in
  let bytes = render ls in
  let ex = expected dl ls in
  let kf = { kf_entries = List.rev ex.p_rev; kf_spare = O; kf_groups = ex.p_groups;
             kf_delim = (match dl with c :: _ -> c | [] -> N0);
             kf_comment = (match cm with c :: _ -> c | [] -> n_of_int 35);
             kf_path = Some (dec path); kf_join = false; kf_python = false;
             kf_parse_dirs = []; kf_conf_dirs = []; kf_root_prefix = None } in
  let st' = (o, kf) :: List.filter (fun (o', _) -> o' <> o) st in
  (st', Printf.sprintf "wf=%d agree=%d lines=%d bytes=%s" (if wf_file dl cm ls then 1 else 0)
          (if agrees dl cm ls then 1 else 0) (List.length ls) (enc bytes))

let dec_olist (s : string) : n list list =
  if s = "-" || s = "" then [] else List.map dec (String.split_on_char ',' s)

let show_checks l = String.concat "," (List.map (fun (p, ok) -> enc p ^ ":" ^ (if ok then "1" else "0")) l)

let show_wout (o : out) : string =
  match o with
  | ORead (e, valid, checks, opens) ->
      Printf.sprintf "%s obj=%d checks=%s opens=%s" (rc e) (if valid then 1 else 0) (show_checks checks) (enc_list opens)
  | OHist (e, files, checks, opens) ->
      Printf.sprintf "%s n=%d checks=%s opens=%s%s" (rc e) (List.length files) (show_checks checks) (enc_list opens)
        (String.concat "" (List.map (fun kf -> " || " ^ show_out (ODump kf)) files))
  | OLoc (f, l) -> Printf.sprintf "loc file=%s line=%d" (enc f) (int_of_n l)
  | OOpts (j, p, pd, cd, rp) -> Printf.sprintf "opts join=%d python=%d parse_dirs=%s conf_dirs=%s root=%s" (if j then 1 else 0) (if p then 1 else 0) (enc_list pd) (enc_list cd) (enc_opt rp)
  | _ -> show_out o

let parse_wcmd (toks : string list) : wcmd =
  let i s = int_of_string s in
  let o s = nat_of_int (i s) in
  let num s = n_of_int (i s) in
  match toks with
  | ["fsfile"; p; content; u; g] -> WFs (decp p, NFile (dec content, num u, num g))
  | ["fslink"; p; target; u; g] -> WFs (decp p, NLink (dec target, num u, num g))
  | ["fsdir"; p; u; g] -> WFs (decp p, NDir (num u, num g))
  | ["sec"; ow; gr; nl] ->
      WSec { sec_owner = (if ow = "-" then None else Some (num ow));
             sec_group = (if gr = "-" then None else Some (num gr)); sec_nolinks = (nl = "1"); sec_perms = None }
  | ["perms"] -> WPerms (n_of_int 0o400, n_of_int 0o100)
  | ["perms"; fm; dm] -> WPerms (n_of_int (int_of_string ("0o" ^ fm)), n_of_int (int_of_string ("0o" ^ dm)))
  | ["confdirs"; l] -> WConfDirs (dec_olist l)
  | ["cb"; "none"] -> WCallback CbNone
  | ["cb"; "reject"] -> WCallback (CbReject [])
  | ["cb"; "reject"; l] -> WCallback (CbReject (dec_olist l))
  | ["newopts"; a; opts] -> WNewOpts (o a, dec_opt opts)
  | ["readfile"; a; p; dl; cm] -> WReadFile (o a, dec p, dec dl, dec cm)
  | ["readdirs"; a; d1; d2; nm; sf; dl; cm] -> WReadDirs (o a, dec_opt d1, dec_opt d2, name_opt nm, dec_opt sf, dec dl, dec cm)
  | ["readconfig"; a; pr; us; nm; sf; dl; cm] ->
      let usr = (match dec_opt us with Some (x :: rest) when int_of_n x = 64 -> Some rest | y -> y) in     (* "@/x" = <scratch root>/x *)
      WReadConfig (o a, dec_opt pr, usr, name_opt nm, dec_opt sf, dec dl, dec cm)
  | ["history"; d1; d2; nm; sf; dl; cm] -> WHistory (dec_opt d1, dec_opt d2, name_opt nm, dec_opt sf, dec dl, dec cm)
  | ["writeto"; a; d; f] -> WWriteTo (o a, dec d, dec f)
  | ["errloc"] -> WErrLoc
  | _ -> WBase (parse_cmd toks)

let cwd = ref []      (* directory of the last chdir ([] = the root of the tree) *)

let () =
  let ic = if Array.length Sys.argv > 1 then open_in Sys.argv.(1) else stdin in
  let w = ref world0 in
  (try
    while true do
      let line = input_line ic in
      if line = "" || line.[0] = '#' then ()
      else if line = "reset" then (w := world0; cwd := []; print_endline "reset")
      else begin
        let toks = String.split_on_char ' ' line in
        match toks with
        | ["wspec"; o] ->
            let kf = List.assoc_opt (nat_of_int (int_of_string o)) (!w).w_store in
            (match kf with
             | None -> print_endline "noobj"
             | Some kf ->
                 let b x = if x then 1 else 0 in
                 Printf.printf "writable=%d render=%d wf=%d roundtrip=%d\n" (b (writable kf)) (b (chk_render kf)) (b (chk_wf kf)) (b (chk_roundtrip kf)))
        | ["freenull"] -> print_endline "rc=0"
        (* harness-only actions that must not change any result: a change of the working directory after the reads of
           the scenario, and a permission requirement every file of the harness satisfies *)
        | ["getnull"; o; _kd; g; k] ->
            (* a typed getter called with a NULL result pointer: the look-up comes first (its refusals are reported as
               usual), a found key gives ECONF_ARGUMENT_IS_NULL_VALUE (22) and nothing is written anywhere *)
            let (_, r) = wstep !w (parse_wcmd ["get"; o; "string"; g; k; "-"]) in
            let txt = show_wout r in
            let rc = (try Scanf.sscanf txt "rc=%d" (fun d -> d) with _ -> -1) in
            if rc = 1 || rc = 2 || rc = 4 || rc = 5 || rc = 6 || rc < 0 then print_endline (if rc < 0 then txt else Printf.sprintf "rc=%d" rc)
            else print_endline "rc=22"
        | ["chdir"; d] -> cwd := dec d; print_endline "rc=0"
        | ["readfile"; a; p; dl; cm] when !cwd <> [] && p <> "-" && dl <> "-" && cm <> "-" ->
            (* a name given after the process has moved: the model's working directory is the root of the tree, so a
               relative name is re-spelled relative to the root by the extracted CwdModel.respell (theorems
               C13_respell_*: still relative, absolute names untouched, resolves to cwd/name) *)
            let (w', r) = wstep !w (WReadFile (nat_of_int (int_of_string a), respell !cwd (dec p), dec dl, dec cm)) in
            w := w'; print_endline (show_wout r)
        | ["cbnest"; _; _; _; _] -> print_endline "rc=0"
        | ["readfile"; _; p; dl; cm] when p = "-" || dl = "-" || cm = "-" ->
            (* econf_readFile with a NULL file name, delimiter or comment argument: refused, no object *)
            print_endline "rc=1 obj=0 checks= opens="
        (* the history of a two-directory read merged left to right by the caller with econf_mergeFiles (a file is
           skipped when a later one has the same name; the first is taken as it is, as the library does): the result,
           then every member of the history as it is AFTER these merges *)
        | ["histmerge"; d1; d2; nm; sf; dl; cm] ->
            let h = read_dirs_history (!w).w_tree (!w).w_g (cb_of (!w).w_cb) (dec_opt d1) (dec_opt d2) (name_opt nm) (dec_opt sf) (dec dl) (dec cm) in
            w := { !w with w_g = h.ho_g };
            (match h.ho_res with
             | Inl e -> print_endline (rc e)
             | Inr files ->
                 let merged = (match merge_files files with Some m -> show_out (ODump m) | None -> "noobj") in
                 Printf.printf "rc=0 n=%d merged=%s%s\n" (List.length files) merged
                   (String.concat "" (List.map (fun kf -> " || " ^ show_out (ODump kf)) files)))
        | ["tool"; cmd; arg; dl; cm] ->
            let f = (match cmd with "show" -> tool_show | "syntax" -> tool_syntax | _ -> tool_cat) in
            let r = f (!w).w_tree (dec arg) (cli_delims (dec dl)) (dec cm) in
            Printf.printf "exit=%d stdout=%s err=%s\n" (int_of_n r.to_exit) (enc r.to_stdout) (enc_opt r.to_errline)
        | ["grammar"; o; path; dl; cm; ast] ->
            let (s', r) = grammar_cmd (!w).w_store (nat_of_int (int_of_string o)) dl cm ast path in
            w := { !w with w_store = s' }; print_endline r
        | _ ->
        let c = parse_wcmd toks in
        let (w', r) = wstep !w c in
        w := w';
        print_endline (show_wout r)
      end
    done
  with End_of_file -> ());
  flush stdout
