#!/bin/sh
# setup.sh — offline build of the framework: Coq development (full .vo build),
# extracted model driver, implementation driver from /repo's working tree.
set -e
cd "$(dirname "$0")"
python3 - <<'PY'
import sys
sys.path.insert(0, "tools")
import vlib
ok, out = vlib.coq_build()
print(out[-2000:])
if not ok:
    sys.exit("Coq build failed")
print(vlib.model_driver())
exe, err = vlib.impl_driver()
if exe is None:
    sys.exit("implementation driver failed to build:\n" + err)
print(exe)
PY
