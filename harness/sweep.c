/* sweep.c — exhaustive set/get round trips through the typed setters and getters of the
 * library for the 32-bit types: every float bit pattern, every int32, every uint32 in
 * [lo, hi).  Built with the library sources of the tree under test (no sanitizer: speed).
 * usage: sweep float|int|uint <lo> <hi>   (decimal, hi exclusive, up to 4294967296)
 * prints "ok <count>" or "FAIL <type> <bits/value> got <...> rc=<...>" and exits 1. */
#include <inttypes.h>
#include <stdio.h>
#include <stdlib.h>
#include <string.h>
#include <math.h>
#include "libeconf.h"

int main(int argc, char **argv)
{
  if (argc < 4) return 2;
  uint64_t lo = strtoull(argv[2], NULL, 10), hi = strtoull(argv[3], NULL, 10), n = 0;
  econf_file *kf = NULL;
  if (econf_newIniFile(&kf) != ECONF_SUCCESS) return 2;
  if (!strcmp(argv[1], "float")) {
    for (uint64_t b = lo; b < hi; b++, n++) {
      uint32_t bits = (uint32_t) b, back; float f, g = 0; memcpy(&f, &bits, 4);
      econf_err e = econf_setFloatValue(kf, "s", "k", f);
      econf_err e2 = e ? e : econf_getFloatValue(kf, "s", "k", &g);
      memcpy(&back, &g, 4);
      int ok = e2 == ECONF_SUCCESS && (isnan(f) ? isnan(g) : back == bits);
      if (!ok) { printf("FAIL float bits=%" PRIu32 " got=%" PRIu32 " rc=%d\n", bits, back, e2); return 1; }
    }
  } else if (!strcmp(argv[1], "int")) {
    for (uint64_t b = lo; b < hi; b++, n++) {
      int32_t v = (int32_t) (uint32_t) b, g = 0;
      econf_err e = econf_setIntValue(kf, NULL, "k", v);
      econf_err e2 = e ? e : econf_getIntValue(kf, NULL, "k", &g);
      if (e2 != ECONF_SUCCESS || g != v) { printf("FAIL int v=%" PRId32 " got=%" PRId32 " rc=%d\n", v, g, e2); return 1; }
    }
  } else if (!strcmp(argv[1], "uint")) {
    for (uint64_t b = lo; b < hi; b++, n++) {
      uint32_t v = (uint32_t) b, g = 0;
      econf_err e = econf_setUIntValue(kf, "[s]", "k", v);
      econf_err e2 = e ? e : econf_getUIntValue(kf, "s", "k", &g);
      if (e2 != ECONF_SUCCESS || g != v) { printf("FAIL uint v=%" PRIu32 " got=%" PRIu32 " rc=%d\n", v, g, e2); return 1; }
    }
  } else return 2;
  econf_free(kf);
  printf("ok %" PRIu64 "\n", n);
  return 0;
}
