/* econf_driver.c — executes scenario files against the library built from
 * /repo's working tree.  One canonical result line per command, in the same
 * format as ocaml/driver.ml prints for the model.
 *
 * usage: econf_driver <scratch-root> [scenario-file]
 * Virtual absolute paths of the scenario are mapped below <scratch-root>;
 * the root prefix is removed from every path that is printed.
 */
#define _GNU_SOURCE
#include <dirent.h>
#include <errno.h>
#include <inttypes.h>
#include <stdbool.h>
#include <stdio.h>
#include <stdlib.h>
#include <string.h>
#include <sys/stat.h>
#include <unistd.h>
#include <ftw.h>
#include <fcntl.h>
#include <sys/wait.h>

#ifdef __SANITIZE_ADDRESS__
#include <sanitizer/lsan_interface.h>
#endif

#include "libeconf.h"
#include "libeconf_ext.h"
#include "keyfile.h"     /* internal: the full dump reads the struct */

#define MAXOBJ 64
#include <pthread.h>
#define TL __thread
static TL econf_file *objs[MAXOBJ];
static TL char root[4096];
static TL size_t rootlen;
static TL FILE *out;                  /* where this thread's results go */
static int thread_mode = 0;
#define printf(...) fprintf(out, __VA_ARGS__)
#undef putchar
#define putchar(c) fputc((c), out)

/* ---------- encoding ---------- */
static char *dec(const char *tok)       /* "-" -> NULL, "x<hex>" -> malloc'd bytes */
{
  if (tok[0] == '-') return NULL;
  size_t n = (strlen(tok) - 1) / 2;
  char *r = malloc(n + 1);
  for (size_t i = 0; i < n; i++) {
    unsigned v; sscanf(tok + 1 + 2 * i, "%2x", &v); r[i] = (char) v;
  }
  r[n] = 0;
  return r;
}
static size_t declen(const char *tok) { return tok[0] == '-' ? 0 : (strlen(tok) - 1) / 2; }

/* delimiter / comment arguments: in two scenarios out of three they are handed to the
   library in one caller-owned buffer that is reused from call to call (a common calling
   pattern: same address, new contents); otherwise in a fresh exact-size allocation
   (so that AddressSanitizer sees any read past their end) */
static TL unsigned scen_no = 0;
static TL char dlbuf[128], cmbuf[128];
static char *argstr(const char *tok, char *buf)
{
  char *d = dec(tok);
  if (!d || scen_no % 3 == 0 || declen(tok) >= 127 || strlen(d) != declen(tok)) return d;
  strcpy(buf, d); free(d);
  return buf;
}
static void argfree(char *p) { if (p != dlbuf && p != cmbuf) free(p); }

static void enc_n(const char *s, size_t n)
{
  putchar('x');
  for (size_t i = 0; i < n; i++) printf("%02x", (unsigned char) s[i]);
}
static void enc(const char *s) { if (!s) putchar('-'); else enc_n(s, strlen(s)); }
/* a path the library hands back: strip the scratch root */
static const char *virt(const char *s);
static void enc_path(const char *s) { enc(virt(s)); }
static void enc_list(char **l, size_t n)
{
  for (size_t i = 0; i < n; i++) { if (i) putchar(','); enc(l[i]); }
}

static char *vpath(const char *p)     /* virtual path -> real path (malloc) */
{
  char *r;
  const char *at = strstr(p, "/@/");
  if (p[0] == '/' && at) {            /* a component "@" stands for the scratch root itself (see decname) */
    if (asprintf(&r, "%s%.*s%s%s", root, (int) (at - p), p, root, at + 2) < 0) abort();
    return r;
  }
  if (p[0] == '/') { if (asprintf(&r, "%s%s", root, p) < 0) abort(); }
  else r = strdup(p);                 /* relative: cwd is the root */
  return r;
}

static void mkparents(const char *real)
{
  char *c = strdup(real);
  for (char *q = c + 1; *q; q++)
    if (*q == '/') { *q = 0; mkdir(c, 0755); *q = '/'; }
  free(c);
}

static int rm_cb(const char *p, const struct stat *sb, int f, struct FTW *b)
{ (void)sb; (void)f; (void)b; return remove(p); }
static void clean_root(void)
{
  nftw(root, rm_cb, 32, FTW_DEPTH | FTW_PHYS);
  mkdir(root, 0755);
  if (!thread_mode && chdir(root)) perror("chdir");
}


/* ---------- layered reads: callback policy, fopen log ---------- */
static TL int in_lib = 0;                 /* a library call is in progress */
static TL char *open_log[4096]; static TL int n_open = 0;
static TL char *check_log[4096]; static TL int check_ok[4096]; static TL int n_check = 0;
static TL char *reject[64]; static TL int n_reject = 0;
static TL int cb_mode = 0;                /* 0: no callback, 1: reject listed paths */
static TL int cb_data_token = 4711; static TL int cb_data_bad = 0;

FILE *__real_fopen(const char *path, const char *mode);
FILE *__wrap_fopen(const char *path, const char *mode)
{
  FILE *f = __real_fopen(path, mode);
  if (in_lib && f && mode[0] == 'r' && n_open < 4096) open_log[n_open++] = strdup(path);
  return f;
}

static TL char virt_buf[3 * 4096];
static const char *virt(const char *s)
{
  if (s && strncmp(s, root, rootlen) == 0 && (s[rootlen] == '/' || s[rootlen] == 0)) {
    const char *v = s[rootlen] ? s + rootlen : "/";
    /* a scratch root INSIDE the rest (configuration names of the form "@/...", see decname) is dropped as well */
    const char *in = strstr(v, root);
    if (in && in > v && (in[rootlen] == '/' || in[rootlen] == 0) && strlen(v) < sizeof virt_buf) {
      size_t k = (size_t) (in - v);
      memcpy(virt_buf, v, k); strcpy(virt_buf + k, in + rootlen);
      return virt_buf;
    }
    return v;
  }
  return s;
}

/* a callback may use the library itself to take its decision (a policy file that is a layered configuration):
   "cbnest d1 d2 name suffix" makes every verdict be preceded by such a read, result dropped */
static TL char *nest[4];
static bool the_callback(const char *filename, const void *data)
{
  if (data != &cb_data_token) cb_data_bad = 1;
  if (nest[2]) {
    int save = in_lib; in_lib = 0;
    econf_file *nf = NULL;
    if (econf_readDirs(&nf, nest[0], nest[1], nest[2], nest[3], "=", "#") == ECONF_SUCCESS) econf_free(nf);
    in_lib = save;
  }
  int ok = 1;
  for (int i = 0; i < n_reject; i++) if (!strcmp(reject[i], virt(filename))) ok = 0;
  if (n_check < 4096) { check_log[n_check] = strdup(filename); check_ok[n_check++] = ok; }
  /* what a callback leaves in errno says nothing about the file: every second verdict comes with ENOENT set
     (as after a look-up of a companion file that does not exist), the others with errno cleared */
  errno = (n_check & 1) ? ENOENT : 0;
  return ok;
}

/* the error location is a record, not a message that is consumed: asking twice gives the same answer */
static TL int errloc_changed = 0;
static void errloc2(char **fn, uint64_t *ln)
{
  char *f2 = NULL; uint64_t l2 = 0;
  econf_errLocation(fn, ln);
  econf_errLocation(&f2, &l2);
  if (!thread_mode && (l2 != *ln || (!f2) != (!*fn) || (f2 && strcmp(f2, *fn)))) errloc_changed = 1;   /* with threads the record is shared by design */
  free(f2);
}
#define ERRLOC_NOTE() do { if (errloc_changed) { printf(" ERRLOC-CHANGED-BY-ASKING"); errloc_changed = 0; } } while (0)

/* what errno holds when the library is entered says nothing about the call: it is set to a different left-over value
   before every call (a directory opened for writing, a failed look-up, an overflowing conversion, ...) */
static TL unsigned poison_no = 0;
static void poison_errno(void)
{
  static const int left_over[] = { EISDIR, ENOENT, ERANGE, 0, EINVAL, EACCES, ENOMEM };
  errno = left_over[poison_no++ % 7];
}
static void begin_lib(void) { in_lib = 1; n_open = 0; n_check = 0; poison_errno(); }
static void end_lib(void)   { in_lib = 0; }
static void print_logs(void)
{
  printf(" checks=");
  for (int i = 0; i < n_check; i++) { if (i) putchar(','); enc(virt(check_log[i])); printf(":%d", check_ok[i]); free(check_log[i]); }
  printf(" opens=");
  for (int i = 0; i < n_open; i++) { if (i) putchar(','); enc(virt(open_log[i])); free(open_log[i]); }
  if (cb_data_bad) printf(" CALLBACK-DATA-CHANGED");
  n_check = n_open = 0;
}

/* "x<hex>" list separated by ',' ("-" = empty) -> NULL terminated array of malloc'd strings */
static char **dec_list(const char *tok, int *n)
{
  char **r = calloc(130, sizeof(char *)); *n = 0;
  if (tok[0] == '-') return r;
  char *c = strdup(tok);
  char *sv = NULL;                      /* strtok_r: scenarios run in several threads at once */
  for (char *p = strtok_r(c, ",", &sv); p && *n < 128; p = strtok_r(NULL, ",", &sv)) r[(*n)++] = dec(p);
  free(c);
  return r;
}
static void free_list(char **l) { for (int i = 0; l[i]; i++) free(l[i]); free(l); }

/* a configuration name "@/x/y" stands for "<scratch root without its leading slash>/x/y": with the directory ""
   (or NULL) the library then looks at "" + "/" + name, which is below the scratch root */
static char *decname(const char *tok)
{
  char *d = dec(tok);
  if (d && d[0] == '@' && d[1] == '/') {
    char *r; if (asprintf(&r, "%s%s", root + 1, d + 1) < 0) abort();
    free(d); return r;
  }
  return d;
}

/* map an optional virtual directory argument */
static char *vdir(const char *tok)
{
  char *v = dec(tok); if (!v) return NULL;
  char *r = (v[0] == '/') ? vpath(v) : strdup(v);
  free(v); return r;
}

/* option string with virtual paths -> real paths (PARSING_DIRS=, ROOT_PREFIX=) */
static char *map_options(const char *opts)
{
  char *out = calloc(1, strlen(opts) * 2 + 64 * (rootlen + 2) + 16), *o = out;
  char *c = strdup(opts), *save = c, *item;
  int first = 1;
  while ((item = strsep(&c, ";")) != NULL) {
    if (!first) *o++ = ';';
    first = 0;
    if (!strncmp(item, "PARSING_DIRS=", 13)) {
      o = stpcpy(o, "PARSING_DIRS=");
      char *v = item + 13, *d; int f2 = 1;
      while ((d = strsep(&v, ":")) != NULL) {
        if (!f2) *o++ = ':';
        f2 = 0;
        if (d[0] == '/') o = stpcpy(o, root);
        o = stpcpy(o, d);
      }
    } else if (!strncmp(item, "ROOT_PREFIX=", 12)) {
      o = stpcpy(o, "ROOT_PREFIX="); o = stpcpy(o, root); o = stpcpy(o, item + 12);
    } else o = stpcpy(o, item);
  }
  free(save);
  return out;
}

static void finish_read(int o, econf_err e, econf_file *res)
{
  objs[o] = res;
  printf("rc=%d obj=%d", e, res ? 1 : 0);
  print_logs();
  putchar('\n');
}

/* after all handles of a scenario were released: nothing may be left */
static TL int started = 0;
/* open file descriptors of the process: streams the library opened and never closed stay reachable through the C
   library's list of open FILEs, so LeakSanitizer does not see them — the descriptor count does */
static int open_fds(void)
{
  int n = 0; DIR *d = opendir("/proc/self/fd");
  if (!d) return -1;
  while (readdir(d)) n++;
  closedir(d);
  return n;
}
static int fd_baseline = -1;
static void end_scenario(void)
{
  if (!started) { started = 1; if (!thread_mode) fd_baseline = open_fds(); return; }
#ifdef __SANITIZE_ADDRESS__
  if (!thread_mode && __lsan_do_recoverable_leak_check())
    printf("leak\n");
#endif
  if (!thread_mode && fd_baseline >= 0) {
    int now = open_fds();
    if (now > fd_baseline) { printf("leak\n"); fd_baseline = now; }      /* reported once per leaked descriptor set */
  }
}

static econf_file *obj(const char *tok) { int i = atoi(tok); return (i >= 0 && i < MAXOBJ) ? objs[i] : NULL; }

static void dump_body(econf_file *kf);
static void dump_inline(econf_file *kf) { dump_body(kf); }
static void dump(econf_file *kf)
{
  if (!kf) { printf("noobj\n"); return; }
  dump_body(kf); putchar('\n');
}
static void dump_body(econf_file *kf)
{
  printf("dump n=%zu spare=%zu groups=", kf->length, kf->alloc_length - kf->length);
  enc_list(kf->groups, (size_t) kf->group_count);
  printf(" d=%d c=%d path=", (unsigned char) kf->delimiter, (unsigned char) kf->comment);
  enc_path(kf->path);
  printf(" |");
  for (size_t i = 0; i < kf->length; i++) {
    struct file_entry *e = &kf->file_entry[i];
    if (i) putchar('|');
    enc(e->group); putchar(' '); enc(e->key); putchar(' '); enc(e->value); putchar(' ');
    enc(e->comment_before_key); putchar(' '); enc(e->comment_after_value);
    printf(" %" PRIu64 " %d", e->line_number, e->quotes ? 1 : 0);
  }
}

static int kind_of(const char *k)
{
  const char *names[] = {"string","int","int64","uint","uint64","bool","float","double"};
  for (int i = 0; i < 8; i++) if (!strcmp(k, names[i])) return i;
  abort();
}

static TL int eol = '\n';

/* where "write" and "reread" put their file: alone, <root>/_out/w.conf; with threads, a file of the thread's own in ONE
   directory that all threads write to (private files, shared directory) */
static TL int thread_ix = -1;
static char shared_out[4096];
/* econf_writeFile(dir, name) creates or replaces dir/name and nothing else: any other entry in the (otherwise empty)
   output directory is reported */
static int stray_files(const char *dir, const char *fname)
{
  int n = 0; DIR *d = opendir(dir); struct dirent *e;
  if (!d) return 0;
  while ((e = readdir(d))) if (strcmp(e->d_name, ".") && strcmp(e->d_name, "..") && strcmp(e->d_name, fname)) n++;
  closedir(d);
  return n;
}
static void out_place(char **dir, char **fname)
{
  if (thread_mode && thread_ix >= 0 && shared_out[0]) { *dir = strdup(shared_out); if (asprintf(fname, "w-t%d.conf", thread_ix) < 0) abort(); }
  else { *dir = vpath("/_out"); mkdir(*dir, 0755); *fname = strdup("w.conf"); }
}

/* Every getter gets its out-parameter pre-filled with a sentinel.  When the call is refused before any conversion is
   attempted (no object, no/empty key, key or group not found, key without value) the parameter must come back
   untouched unless the default is handed out (ECONF_NOKEY with a default): "OUT-CHANGED" is printed otherwise.
   After a failed conversion the parameter may hold anything (the library stores the partial result); not looked at. */
#define REFUSED_EARLY(e) ((e) == ECONF_FILE_LIST_IS_NULL || (e) == ECONF_EMPTYKEY || (e) == ECONF_NOKEY || (e) == ECONF_NOGROUP || \
                          (e) == ECONF_KEY_HAS_NULL_VALUE || (e) == ECONF_ERROR || (e) == ECONF_ARGUMENT_IS_NULL_VALUE)
static void do_get(econf_file *kf, int kd, const char *g, const char *k, const char *def)
{
  int has_def = def[0] != '-';
  econf_err e;
  poison_errno();
#define DELIVERED (e == ECONF_SUCCESS || (has_def && e == ECONF_NOKEY))
  switch (kd) {
  case 0: {
    static char sentinel[] = "sentinel";
    char *v = sentinel;
    if (has_def) { char *d = dec(def + 2); e = econf_getStringValueDef(kf, g, k, &v, d); free(d); }
    else e = econf_getStringValue(kf, g, k, &v);
    printf("rc=%d", e);
    if (DELIVERED) { printf(" v="); enc(v == sentinel ? "SENTINEL-LEFT" : v); if (v != sentinel) free(v); }
    else if (REFUSED_EARLY(e) && v != sentinel) { printf(" OUT-CHANGED"); }
    putchar(eol); break; }
  case 1: { int32_t v = 0x5a5a5a5a;
    e = has_def ? econf_getIntValueDef(kf, g, k, &v, (int32_t) strtoll(def + 2, NULL, 10)) : econf_getIntValue(kf, g, k, &v);
    printf("rc=%d", e); if (DELIVERED) printf(" z=%" PRId32, v); else if (REFUSED_EARLY(e) && v != 0x5a5a5a5a) printf(" OUT-CHANGED"); putchar(eol); break; }
  case 2: { int64_t v = 0x5a5a5a5a5a5a5a5aLL;
    e = has_def ? econf_getInt64ValueDef(kf, g, k, &v, (int64_t) strtoll(def + 2, NULL, 10)) : econf_getInt64Value(kf, g, k, &v);
    printf("rc=%d", e); if (DELIVERED) printf(" z=%" PRId64, v); else if (REFUSED_EARLY(e) && v != 0x5a5a5a5a5a5a5a5aLL) printf(" OUT-CHANGED"); putchar(eol); break; }
  case 3: { uint32_t v = 0x5a5a5a5au;
    e = has_def ? econf_getUIntValueDef(kf, g, k, &v, (uint32_t) strtoull(def + 2, NULL, 10)) : econf_getUIntValue(kf, g, k, &v);
    printf("rc=%d", e); if (DELIVERED) printf(" z=%" PRIu32, v); else if (REFUSED_EARLY(e) && v != 0x5a5a5a5au) printf(" OUT-CHANGED"); putchar(eol); break; }
  case 4: { uint64_t v = 0x5a5a5a5a5a5a5a5aULL;
    e = has_def ? econf_getUInt64ValueDef(kf, g, k, &v, (uint64_t) strtoull(def + 2, NULL, 10)) : econf_getUInt64Value(kf, g, k, &v);
    printf("rc=%d", e); if (DELIVERED) printf(" z=%" PRIu64, v); else if (REFUSED_EARLY(e) && v != 0x5a5a5a5a5a5a5a5aULL) printf(" OUT-CHANGED"); putchar(eol); break; }
  case 5: { unsigned char raw = 0x5a; bool *vp = (bool *) &raw;
    e = has_def ? econf_getBoolValueDef(kf, g, k, vp, def[2] == '1') : econf_getBoolValue(kf, g, k, vp);
    printf("rc=%d", e); if (DELIVERED) printf(" b=%d", raw ? 1 : 0); else if (REFUSED_EARLY(e) && raw != 0x5a) printf(" OUT-CHANGED"); putchar(eol); break; }
  case 6: { uint32_t bits = 0x5a5a5a5au; float v; memcpy(&v, &bits, 4);
    if (has_def) { char *d = dec(def + 2); float dv = strtof(d, NULL); free(d); e = econf_getFloatValueDef(kf, g, k, &v, dv); }
    else e = econf_getFloatValue(kf, g, k, &v);
    memcpy(&bits, &v, 4);
    printf("rc=%d", e); if (DELIVERED) printf(" bits=%" PRIu32, bits); else if (REFUSED_EARLY(e) && bits != 0x5a5a5a5au) printf(" OUT-CHANGED"); putchar(eol); break; }
  case 7: { uint64_t bits = 0x5a5a5a5a5a5a5a5aULL; double v; memcpy(&v, &bits, 8);
    if (has_def) { char *d = dec(def + 2); double dv = strtod(d, NULL); free(d); e = econf_getDoubleValueDef(kf, g, k, &v, dv); }
    else e = econf_getDoubleValue(kf, g, k, &v);
    memcpy(&bits, &v, 8);
    printf("rc=%d", e); if (DELIVERED) printf(" bits=%" PRIu64, bits); else if (REFUSED_EARLY(e) && bits != 0x5a5a5a5a5a5a5a5aULL) printf(" OUT-CHANGED"); putchar(eol); break; }
  }
#undef DELIVERED
}

static void do_ext(econf_file *kf, const char *g, const char *k)
{
  econf_ext_value *x = NULL;
  econf_err e = econf_getExtValue(kf, g, k, &x);
  printf("rc=%d", e);
  if (e == ECONF_SUCCESS) {
    size_t nv = 0; while (x->values[nv]) nv++;
    printf(" vals="); enc_list(x->values, nv);
    printf(" file="); enc_path(x->file);
    printf(" line=%" PRIu64 " cbk=", x->line_number); enc(x->comment_before_key);
    printf(" cav="); enc(x->comment_after_value);
    econf_freeExtValue(x);
  }
  putchar(eol);
}

/* every listing and every getter on every listed key */
static void getall(econf_file *kf)
{
  char **groups = NULL; size_t ng = 0;
  if (!kf) { printf("noobj\n"); return; }
  printf("all ");
  eol = ';';
  econf_err e = econf_getGroups(kf, &ng, &groups);
  printf("rc=%d", e);
  if (e == ECONF_SUCCESS) { printf(" l="); enc_list(groups, ng); } else ng = 0;
  putchar(';');
  for (size_t g = 0; g <= ng; g++) {
    const char *grp = g == 0 ? NULL : groups[g - 1];
    char **keys = NULL; size_t nk = 0;
    e = econf_getKeys(kf, grp, &nk, &keys);
    printf("rc=%d", e);
    if (e != ECONF_SUCCESS) { putchar(';'); continue; }
    printf(" l="); enc_list(keys, nk); putchar(';');
    for (size_t k = 0; k < nk; k++) {
      for (int kd = 0; kd < 8; kd++) do_get(kf, kd, grp, keys[k], "-");
      do_ext(kf, grp, keys[k]);
    }
    econf_free(keys);
  }
  if (groups) econf_free(groups);
  eol = '\n';
  putchar('\n');
}

static TL unsigned set_no = 0;
static void do_set(econf_file *kf, int kd, const char *g, const char *k, const char *text, const char *z)
{
  econf_err e = 0;
  poison_errno();
  if (++set_no % 2 == 0 && kd != 5) {
    /* every second call goes through the generic econf_setValue macro (no boolean there) */
    char *gg = (char *) g, *kk = (char *) k;
    switch (kd) {
    case 0: e = econf_setValue(kf, gg, kk, (char *) text); break;
    case 1: { int v = (int32_t) strtoll(z, NULL, 10); e = econf_setValue(kf, gg, kk, v); break; }
    case 2: { long v = (int64_t) strtoll(z, NULL, 10); e = econf_setValue(kf, gg, kk, v); break; }
    case 3: { unsigned int v = (uint32_t) strtoull(z, NULL, 10); e = econf_setValue(kf, gg, kk, v); break; }
    case 4: { unsigned long v = (uint64_t) strtoull(z, NULL, 10); e = econf_setValue(kf, gg, kk, v); break; }
    case 6: { uint32_t b = (uint32_t) strtoull(z, NULL, 10); float f; memcpy(&f, &b, 4); e = econf_setValue(kf, gg, kk, f); break; }
    case 7: { uint64_t b = strtoull(z, NULL, 10); double f; memcpy(&f, &b, 8); e = econf_setValue(kf, gg, kk, f); break; }
    }
    printf("rc=%d\n", e);
    return;
  }
  switch (kd) {
  case 0: e = econf_setStringValue(kf, g, k, text); break;
  case 1: e = econf_setIntValue(kf, g, k, (int32_t) strtoll(z, NULL, 10)); break;
  case 2: e = econf_setInt64Value(kf, g, k, (int64_t) strtoll(z, NULL, 10)); break;
  case 3: e = econf_setUIntValue(kf, g, k, (uint32_t) strtoull(z, NULL, 10)); break;
  case 4: e = econf_setUInt64Value(kf, g, k, (uint64_t) strtoull(z, NULL, 10)); break;
  case 5: e = econf_setBoolValue(kf, g, k, text); break;
  case 6: { uint32_t b = (uint32_t) strtoull(z, NULL, 10); float f; memcpy(&f, &b, 4);
            e = econf_setFloatValue(kf, g, k, f); break; }
  case 7: { uint64_t b = strtoull(z, NULL, 10); double f; memcpy(&f, &b, 8);
            e = econf_setDoubleValue(kf, g, k, f); break; }
  }
  printf("rc=%d\n", e);
}

static void do_parse(int o, char **t)
{
  char *path = dec(t[2]), *content = dec(t[3]), *dl = argstr(t[4], dlbuf), *cm = argstr(t[5], cmbuf);
  size_t clen = declen(t[3]);
  int py = t[6][0] == '1', jn = t[7][0] == '1';
  char *real = vpath(path);
  mkparents(real);
  FILE *f = fopen(real, "wb");
  if (!f) { printf("driver-error cannot create %s\n", real); exit(3); }
  fwrite(content, 1, clen, f); fclose(f);
  if (objs[o]) { econf_free(objs[o]); objs[o] = NULL; }
  econf_err e;
  poison_errno();
  if (!py && !jn) {
    e = econf_readFile(&objs[o], real, dl, cm);
  } else {
    /* options only reach the parser through the layered reader: a single
       directory holding exactly this file */
    char *dir = strdup(real), *base, *opts, *dot;
    char *slash = strrchr(dir, '/'); *slash = 0; base = slash + 1;
    dot = strrchr(base, '.');
    if (!dot || strcmp(dot, ".conf")) { printf("driver-error option parse needs a .conf name\n"); exit(3); }
    *dot = 0;
    if (asprintf(&opts, "%s%sPARSING_DIRS=%s", py ? "PYTHON_STYLE=1;" : "", jn ? "JOIN_SAME_ENTRIES=1;" : "", dir) < 0) abort();
    e = econf_newKeyFile_with_options(&objs[o], opts);
    if (e == ECONF_SUCCESS)
      e = econf_readConfig(&objs[o], NULL, NULL, base, "conf", dl, cm);
    if (e != ECONF_SUCCESS && objs[o]) { econf_free(objs[o]); objs[o] = NULL; }
    free(opts); free(dir);
  }
  char *fn = NULL; uint64_t ln = 0;
  errloc2(&fn, &ln);
  if (e == ECONF_SUCCESS) printf("rc=0\n");
  else { printf("rc=%d line=%" PRIu64 " file=", e, ln); enc_path(fn); ERRLOC_NOTE(); putchar('\n'); }
  errloc_changed = 0;
  free(fn);
  if (e != ECONF_SUCCESS && objs[o]) { printf("driver-error object returned with error\n"); exit(3); }
  free(path); free(content); argfree(dl); argfree(cm); free(real);
}

static void run_stream(FILE *in)
{
  char *line = NULL; size_t cap = 0; ssize_t n;
  while ((n = getline(&line, &cap, in)) > 0) {
    if (line[n - 1] == '\n') line[--n] = 0;
    if (!n || line[0] == '#') continue;
    char *t[16]; int nt = 0;
    char *sv = NULL;
    for (char *p = strtok_r(line, " ", &sv); p && nt < 16; p = strtok_r(NULL, " ", &sv)) t[nt++] = p;
    const char *c = t[0];
    if (!strcmp(c, "reset")) {
      for (int i = 0; i < MAXOBJ; i++) if (objs[i]) { econf_free(objs[i]); objs[i] = NULL; }
      end_scenario();
      clean_root();
      if (!thread_mode) { econf_reset_security_settings(); const char *none[] = { NULL }; econf_set_conf_dirs(none); }
      cb_mode = 0; for (int i = 0; i < n_reject; i++) free(reject[i]); n_reject = 0; cb_data_bad = 0;
      for (int i = 0; i < 4; i++) { free(nest[i]); nest[i] = NULL; }
      scen_no++;
      printf("reset\n");
    } else if (!strcmp(c, "newkf")) {
      int o = atoi(t[1]); if (objs[o]) econf_free(objs[o]); objs[o] = NULL;
      printf("rc=%d\n", econf_newKeyFile(&objs[o], (char) atoi(t[2]), (char) atoi(t[3])));
    } else if (!strcmp(c, "newini")) {
      int o = atoi(t[1]); if (objs[o]) econf_free(objs[o]); objs[o] = NULL;
      printf("rc=%d\n", econf_newIniFile(&objs[o]));
    } else if (!strcmp(c, "newempty")) {
      int o = atoi(t[1]); if (objs[o]) econf_free(objs[o]); objs[o] = NULL;
      printf("rc=%d\n", econf_newKeyFile_with_options(&objs[o], ""));
    } else if (!strcmp(c, "parse")) {
      do_parse(atoi(t[1]), t);
    } else if (!strcmp(c, "parsepipe")) {
      /* the file is a named pipe fed by another process: nothing but sequential reading works on it */
      int o = atoi(t[1]);
      char *path = dec(t[2]), *content = dec(t[3]), *dl = argstr(t[4], dlbuf), *cm = argstr(t[5], cmbuf);
      size_t clen = declen(t[3]);
      char *real = vpath(path); mkparents(real); unlink(real);
      if (mkfifo(real, 0644)) { printf("driver-error mkfifo\n"); exit(3); }
      fflush(out);
      pid_t pid = fork();
      if (pid == 0) {
        int fd = open(real, O_WRONLY); size_t off = 0;
        while (fd >= 0 && off < clen) { ssize_t w = write(fd, content + off, clen - off); if (w <= 0) break; off += (size_t) w; }
        _exit(0);
      }
      if (objs[o]) { econf_free(objs[o]); objs[o] = NULL; }
      poison_errno();
      econf_err e = econf_readFile(&objs[o], real, dl, cm);
      { int st; waitpid(pid, &st, 0); }
      char *fn = NULL; uint64_t ln = 0;
      errloc2(&fn, &ln);
      if (e == ECONF_SUCCESS) printf("rc=0\n");
      else { printf("rc=%d line=%" PRIu64 " file=", e, ln); enc_path(fn); ERRLOC_NOTE(); putchar('\n'); }
      errloc_changed = 0;
      free(fn); free(path); free(content); argfree(dl); argfree(cm); free(real);
    } else if (!strcmp(c, "set")) {
      char *g = dec(t[3]), *k = dec(t[4]), *text = dec(t[5]);
      do_set(obj(t[1]), kind_of(t[2]), g, k, text, t[6]);
      free(g); free(k); free(text);
    } else if (!strcmp(c, "get")) {
      char *g = dec(t[3]), *k = dec(t[4]);
      do_get(obj(t[1]), kind_of(t[2]), g, k, t[5]);
      free(g); free(k);
    } else if (!strcmp(c, "getnull")) {
      /* a typed getter with a NULL result pointer */
      char *g = dec(t[3]), *k = dec(t[4]); econf_file *kf = obj(t[1]); econf_err e = 0;
      poison_errno();
      switch (kind_of(t[2])) {
      case 0: e = econf_getStringValue(kf, g, k, NULL); break;
      case 1: e = econf_getIntValue(kf, g, k, NULL); break;
      case 2: e = econf_getInt64Value(kf, g, k, NULL); break;
      case 3: e = econf_getUIntValue(kf, g, k, NULL); break;
      case 4: e = econf_getUInt64Value(kf, g, k, NULL); break;
      case 5: e = econf_getBoolValue(kf, g, k, NULL); break;
      case 6: e = econf_getFloatValue(kf, g, k, NULL); break;
      default: e = econf_getDoubleValue(kf, g, k, NULL); break;
      }
      printf("rc=%d\n", e); free(g); free(k);
    } else if (!strcmp(c, "ext")) {
      char *g = dec(t[2]), *k = dec(t[3]);
      do_ext(obj(t[1]), g, k);
      free(g); free(k);
    } else if (!strcmp(c, "groups")) {
      /* released by the cleanup helper the header provides for this purpose */
      char **l __attribute__((cleanup(econf_freeArrayp))) = NULL; size_t len = 0;
      econf_err e = econf_getGroups(obj(t[1]), &len, &l);
      printf("rc=%d", e);
      if (e == ECONF_SUCCESS) { printf(" l="); enc_list(l, len); }
      putchar('\n');
    } else if (!strcmp(c, "keys")) {
      char *g = dec(t[2]); char **l = NULL; size_t len = 0;
      econf_err e = econf_getKeys(obj(t[1]), g, &len, &l);
      printf("rc=%d", e);
      if (e == ECONF_SUCCESS) { printf(" l="); enc_list(l, len); econf_free(l); }
      putchar('\n'); free(g);
    } else if (!strcmp(c, "merge")) {
      int d = atoi(t[1]); econf_file *m = NULL;
      poison_errno();
      econf_err e = econf_mergeFiles(&m, obj(t[2]), obj(t[3]));
      if (objs[d] && objs[d] != m) econf_free(objs[d]);
      objs[d] = m;
      printf("rc=%d\n", e);
    } else if (!strcmp(c, "write")) {
      econf_file *kf = obj(t[1]);
      char *dir, *wname; out_place(&dir, &wname);
      econf_err e = econf_writeFile(kf, dir, wname);
      printf("rc=%d", e);
      if (e == ECONF_SUCCESS) {
        char *fn; if (asprintf(&fn, "%s/%s", dir, wname) < 0) abort();
        FILE *f = fopen(fn, "rb"); char *b = NULL; size_t len = 0, capb = 0; int ch;
        while ((ch = fgetc(f)) != EOF) { if (len + 1 > capb) { capb = capb ? 2 * capb : 256; b = realloc(b, capb); } b[len++] = (char) ch; }
        struct stat wsb;
        fclose(f); printf(" bytes="); enc_n(b ? b : "", len); free(b);
        if (stat(fn, &wsb) == 0 && (wsb.st_mode & 07777) != 0644) printf(" MODE=%o", (unsigned) (wsb.st_mode & 07777));
        if (!thread_mode && stray_files(dir, wname)) printf(" OTHER-FILES-LEFT-IN-DIRECTORY");
        free(fn);
      }
      putchar('\n'); free(dir); free(wname);
    } else if (!strcmp(c, "writeto")) {
      /* econf_writeFile into a directory of the tree (which may not exist, or not be a directory) */
      econf_file *kf = obj(t[1]); char *d = dec(t[2]), *fn = dec(t[3]); char *real = vpath(d);
      printf("rc=%d\n", econf_writeFile(kf, real, fn));
      free(d); free(fn); free(real);
    } else if (!strcmp(c, "reread")) {
      int d = atoi(t[1]); econf_file *kf = obj(t[2]);
      if (!kf) { printf("noobj\n"); }
      else {
        char *dir, *wname; out_place(&dir, &wname);
        econf_err e = econf_writeFile(kf, dir, wname);
        if (e != ECONF_SUCCESS) printf("driver-error write failed %d\n", e);
        else if (!thread_mode && stray_files(dir, wname)) printf("rc=0 OTHER-FILES-LEFT-IN-DIRECTORY\n");
        else {
          char dl[2] = { econf_delimiter_tag(kf), 0 }, cm[2] = { econf_comment_tag(kf), 0 };
          char *fn; if (asprintf(&fn, "%s/%s", dir, wname) < 0) abort();
          if (objs[d]) { econf_free(objs[d]); objs[d] = NULL; }
          e = econf_readFile(&objs[d], fn, dl, cm);
          if (e == ECONF_SUCCESS) printf("rc=0\n");
          else { char *f2 = NULL; uint64_t ln = 0; errloc2(&f2, &ln); printf("rc=%d line=%" PRIu64 " file=", e, ln); enc_path(f2); ERRLOC_NOTE(); putchar('\n'); free(f2); }
          free(fn);
        }
        free(dir); free(wname);
      }
    } else if (!strcmp(c, "dump")) {
      dump(obj(t[1]));
    } else if (!strcmp(c, "getall")) {
      getall(obj(t[1]));
    } else if (!strcmp(c, "path")) {
      econf_file *kf = obj(t[1]);
      if (!kf) printf("noobj\n");
      else { char *p = econf_getPath(kf); printf("rc=0 v="); enc_path(p); putchar('\n'); free(p); }
    } else if (!strcmp(c, "tags")) {
      econf_file *kf = obj(t[1]);
      printf("tags d=%d c=%d\n", (unsigned char) econf_delimiter_tag(kf), (unsigned char) econf_comment_tag(kf));
    } else if (!strcmp(c, "settags")) {
      econf_file *kf = obj(t[1]);
      econf_set_delimiter_tag(kf, (char) atoi(t[2])); econf_set_comment_tag(kf, (char) atoi(t[3]));
      printf("rc=0\n");
    } else if (!strcmp(c, "fsfile") || !strcmp(c, "fslink") || !strcmp(c, "fsdir")) {
      char *p = dec(t[1]); char *real = vpath(p);
      mkparents(real);
      int ui = c[2] == 'd' ? 2 : 3;
      if (c[2] == 'f') { char *content = dec(t[2]); FILE *f = __real_fopen(real, "wb");
                         if (!f) { printf("driver-error cannot create %s\n", real); exit(3); }
                         fwrite(content, 1, declen(t[2]), f); fclose(f); free(content); }
      else if (c[2] == 'l') { char *tg = dec(t[2]); char *rt = (tg[0] == '/' && strcmp(tg, "/dev/null")) ? vpath(tg) : strdup(tg); unlink(real); if (symlink(rt, real)) perror("symlink"); free(tg); free(rt); }
      else mkdir(real, 0755);
      if (lchown(real, (uid_t) atoi(t[ui]), (gid_t) atoi(t[ui + 1]))) perror("lchown");
      printf("rc=0\n"); free(p); free(real);
    } else if (!strcmp(c, "sec")) {
      /* the same final settings through differently ordered (and partly redundant) setter calls */
      static TL unsigned sec_no = 0;
      int nolinks = t[3][0] == '1';
      econf_reset_security_settings();
      switch (sec_no++ % 6) {
      case 4:                                             /* a redundant "allow" first: only the LAST call counts */
        econf_followSymlinks(true);
        if (t[1][0] != '-') econf_requireOwner((uid_t) atoi(t[1]));
        if (t[2][0] != '-') econf_requireGroup((gid_t) atoi(t[2]));
        econf_followSymlinks(!nolinks); break;
      case 5:                                             /* the opposite request twice, then the wanted one once */
        econf_followSymlinks(nolinks); econf_followSymlinks(nolinks);
        if (t[2][0] != '-') econf_requireGroup((gid_t) atoi(t[2]));
        if (t[1][0] != '-') econf_requireOwner((uid_t) atoi(t[1]));
        econf_followSymlinks(!nolinks); break;
      case 0:
        if (t[1][0] != '-') econf_requireOwner((uid_t) atoi(t[1]));
        if (t[2][0] != '-') econf_requireGroup((gid_t) atoi(t[2]));
        econf_followSymlinks(!nolinks); break;
      case 1:
        econf_followSymlinks(!nolinks);
        if (t[2][0] != '-') econf_requireGroup((gid_t) atoi(t[2]));
        if (t[1][0] != '-') econf_requireOwner((uid_t) atoi(t[1])); break;
      case 2:
        econf_followSymlinks(false);                      /* set, then set back */
        if (t[1][0] != '-') { econf_requireOwner((uid_t) 77777); econf_requireOwner((uid_t) atoi(t[1])); }
        if (t[2][0] != '-') econf_requireGroup((gid_t) atoi(t[2]));
        econf_followSymlinks(!nolinks); break;
      default:
        if (t[1][0] != '-') econf_requireOwner((uid_t) atoi(t[1]));
        if (nolinks) econf_followSymlinks(false);         /* the default is not restated */
        if (t[2][0] != '-') econf_requireGroup((gid_t) atoi(t[2])); break;
      }
      printf("rc=0\n");
    } else if (!strcmp(c, "chdir")) {
      /* only after the reads of a scenario: what was read must not depend on where the process is later on */
      char *p = dec(t[1]); char *real = vpath(p); mkparents(real); mkdir(real, 0755);
      if (thread_mode || chdir(real)) printf("driver-error chdir\n"); else printf("rc=0\n");
      free(p); free(real);
    } else if (!strcmp(c, "perms")) {
      /* econf_requirePermissions: octal file and directory masks; without arguments a requirement every file (0644)
         and directory (0755) of the harness meets */
      if (nt >= 3) econf_requirePermissions((mode_t) strtoul(t[1], NULL, 8), (mode_t) strtoul(t[2], NULL, 8));
      else econf_requirePermissions(0400, 0100);
      printf("rc=0\n");
    } else if (!strcmp(c, "confdirs")) {
      int n; char **l = dec_list(t[1], &n);
      printf("rc=%d\n", econf_set_conf_dirs((const char **) l)); free_list(l);
    } else if (!strcmp(c, "cb")) {
      for (int i = 0; i < n_reject; i++) free(reject[i]);
      n_reject = 0; cb_mode = strcmp(t[1], "none") ? 1 : 0;
      if (cb_mode && nt > 2) { int n; char **l = dec_list(t[2], &n); for (int i = 0; i < n && i < 64; i++) reject[n_reject++] = strdup(l[i]); free_list(l); }
      printf("rc=0\n");
    } else if (!strcmp(c, "cbnest")) {
      for (int i = 0; i < 4; i++) free(nest[i]);
      nest[0] = vdir(t[1]); nest[1] = vdir(t[2]); nest[2] = dec(t[3]); nest[3] = dec(t[4]);
      printf("rc=0\n");
    } else if (!strcmp(c, "newopts")) {
      int o = atoi(t[1]); if (objs[o]) econf_free(objs[o]); objs[o] = NULL;
      char *opts = dec(t[2]); char *m = opts ? map_options(opts) : NULL;
      printf("rc=%d\n", econf_newKeyFile_with_options(&objs[o], m)); free(opts); free(m);
    } else if (!strcmp(c, "readfile")) {
      int o = atoi(t[1]); if (objs[o]) econf_free(objs[o]); objs[o] = NULL;
      char *p = dec(t[2]), *real = p ? vpath(p) : NULL, *dl = argstr(t[3], dlbuf), *cm = argstr(t[4], cmbuf);
      econf_file *res = NULL; begin_lib();
      econf_err e = cb_mode ? econf_readFileWithCallback(&res, real, dl, cm, the_callback, &cb_data_token) : econf_readFile(&res, real, dl, cm);
      end_lib(); finish_read(o, e, res); free(p); free(real); argfree(dl); argfree(cm);
    } else if (!strcmp(c, "readdirs")) {
      int o = atoi(t[1]); if (objs[o]) econf_free(objs[o]); objs[o] = NULL;
      char *d1 = vdir(t[2]), *d2 = vdir(t[3]), *name = decname(t[4]), *sfx = dec(t[5]), *dl = argstr(t[6], dlbuf), *cm = argstr(t[7], cmbuf);
      econf_file *res = NULL; begin_lib();
      econf_err e = cb_mode ? econf_readDirsWithCallback(&res, d1, d2, name, sfx, dl, cm, the_callback, &cb_data_token)
                            : econf_readDirs(&res, d1, d2, name, sfx, dl, cm);
      end_lib(); finish_read(o, e, res); free(d1); free(d2); free(name); free(sfx); argfree(dl); argfree(cm);
    } else if (!strcmp(c, "readconfig")) {
      int o = atoi(t[1]);
      char *proj = dec(t[2]), *usr = dec(t[3]), *name = decname(t[4]), *sfx = dec(t[5]), *dl = argstr(t[6], dlbuf), *cm = argstr(t[7], cmbuf);
      econf_file *res = objs[o];
      if (usr && usr[0] == '@') {         /* "@/x": the vendor sub-directory <scratch root>/x, given WITHOUT a root prefix on the handle */
        char *u2; if (asprintf(&u2, "%s%s", root, usr + 1) < 0) abort();
        free(usr); usr = u2;
      }
      /* without a handle (or with one that names no directories) the library looks below the REAL /usr, /run and /etc:
         only allowed for project names (or, without a project, configuration names) that cannot exist there */
      if ((!res || (!res->root_prefix && res->parse_dirs_count == 0)) && !(proj && !strncmp(proj, "verif-absent-", 13))
          && !(!proj && name && !strncmp(name, "verif-absent-", 13)))
        { printf("driver-error readconfig needs ROOT_PREFIX or PARSING_DIRS\n"); exit(3); }
      begin_lib();
      econf_err e = cb_mode ? econf_readConfigWithCallback(&res, proj, usr, name, sfx, dl, cm, the_callback, &cb_data_token)
                            : econf_readConfig(&res, proj, usr, name, sfx, dl, cm);
      end_lib(); finish_read(o, e, res); free(proj); free(usr); free(name); free(sfx); argfree(dl); argfree(cm);
    } else if (!strcmp(c, "history")) {
      char *d1 = vdir(t[1]), *d2 = vdir(t[2]), *name = decname(t[3]), *sfx = dec(t[4]), *dl = argstr(t[5], dlbuf), *cm = argstr(t[6], cmbuf);
      econf_file **files = NULL; size_t n = 0; begin_lib();
      econf_err e = cb_mode ? econf_readDirsHistoryWithCallback(&files, &n, d1, d2, name, sfx, dl, cm, the_callback, &cb_data_token)
                            : econf_readDirsHistory(&files, &n, d1, d2, name, sfx, dl, cm);
      end_lib();
      printf("rc=%d n=%zu", e, e ? (size_t) 0 : n); print_logs();
      if (e == ECONF_SUCCESS) { for (size_t i = 0; i < n; i++) { printf(" || "); dump_inline(files[i]); econf_free(files[i]); } free(files); }
      else if (files) printf(" HISTORY-POINTER-SET-ON-ERROR");
      putchar('\n');
      free(d1); free(d2); free(name); free(sfx); argfree(dl); argfree(cm);
    } else if (!strcmp(c, "histmerge")) {
      /* the caller merges the history itself, left to right, with the public econf_mergeFiles */
      char *d1 = vdir(t[1]), *d2 = vdir(t[2]), *name = decname(t[3]), *sfx = dec(t[4]), *dl = argstr(t[5], dlbuf), *cm = argstr(t[6], cmbuf);
      econf_file **files = NULL; size_t n = 0;
      econf_err e = cb_mode ? econf_readDirsHistoryWithCallback(&files, &n, d1, d2, name, sfx, dl, cm, the_callback, &cb_data_token)
                            : econf_readDirsHistory(&files, &n, d1, d2, name, sfx, dl, cm);
      for (int i = 0; i < n_check; i++) free(check_log[i]);       /* the callback's log is not printed here */
      n_check = 0;
      if (e != ECONF_SUCCESS) printf("rc=%d\n", e);
      else {
        econf_file *cur = files[0]; int own = 0;
        for (size_t i = 1; i < n; i++) {
          int masked = 0;
          char *a = econf_getPath(files[i]); const char *ba = strrchr(a, '/'); ba = ba ? ba + 1 : a;
          if (strcmp(ba, ".") && strcmp(ba, ".."))
            for (size_t j = i + 1; j < n && !masked; j++) {
              char *b = econf_getPath(files[j]); const char *bb = strrchr(b, '/'); bb = bb ? bb + 1 : b;
              if (!strcmp(ba, bb)) masked = 1;
              free(b);
            }
          free(a);
          if (masked) continue;
          econf_file *m = NULL;
          econf_err me = econf_mergeFiles(&m, cur, files[i]);
          if (me != ECONF_SUCCESS) { printf("driver-note merge failed %d ", me); break; }
          if (own) econf_free(cur);
          cur = m; own = 1;
        }
        printf("rc=0 n=%zu merged=", n); dump_inline(cur);
        for (size_t i = 0; i < n; i++) { printf(" || "); dump_inline(files[i]); }
        putchar('\n');
        if (own) econf_free(cur);
        for (size_t i = 0; i < n; i++) econf_free(files[i]);
        free(files);
      }
      free(d1); free(d2); free(name); free(sfx); argfree(dl); argfree(cm);
    } else if (!strcmp(c, "errloc")) {
      char *fn = NULL; uint64_t ln = 0; errloc2(&fn, &ln);
      printf("loc file="); enc_path(fn); printf(" line=%" PRIu64, ln); ERRLOC_NOTE(); putchar('\n'); free(fn);
    } else if (!strcmp(c, "opts")) {
      econf_file *kf = obj(t[1]);
      if (!kf) printf("noobj\n");
      else {
        printf("opts join=%d python=%d parse_dirs=", kf->join_same_entries ? 1 : 0, kf->python_style ? 1 : 0);
        for (int i = 0; i < kf->parse_dirs_count; i++) { if (i) putchar(','); enc(virt(kf->parse_dirs[i])); }
        printf(" conf_dirs=");
        for (int i = 0; i < kf->conf_count; i++) { if (i) putchar(','); enc(kf->conf_dirs[i]); }
        printf(" root=");
        if (kf->root_prefix && !strncmp(kf->root_prefix, root, rootlen)) enc(kf->root_prefix + rootlen);   /* the driver put the scratch root in front */
        else enc(kf->root_prefix);
        putchar('\n');
      }
    } else if (!strcmp(c, "freenull")) {
      /* the free functions accept NULL and return NULL */
      econf_file *a = econf_freeFile(NULL); char **b = econf_freeArray(NULL); econf_freeExtValue(NULL);
      printf("rc=%d\n", (a == NULL && b == NULL) ? 0 : 1);
    } else if (!strcmp(c, "errstring")) {
      printf("rc=0 v="); enc(econf_errString((econf_err) atoi(t[1]))); putchar('\n');
    } else if (!strcmp(c, "free")) {
      int o = atoi(t[1]); econf_freeFilep(&objs[o]);      /* the header's cleanup helper: frees and NULLs */
      if (objs[o]) printf("driver-note econf_freeFilep left the pointer set\n");
      printf("rc=0\n");
    } else {
      printf("driver-error unknown command %s\n", c); exit(3);
    }
    fflush(out);
  }
  for (int i = 0; i < MAXOBJ; i++) if (objs[i]) { econf_free(objs[i]); objs[i] = NULL; }
  end_scenario();
  fflush(out);
  free(line);
}

struct targ { char rootdir[4096]; char scen[4096]; char *buf; size_t len; int ix; };
static void *thread_main(void *p)
{
  struct targ *a = p;
  thread_ix = a->ix;
  mkdir(a->rootdir, 0755);
  if (!realpath(a->rootdir, root)) return NULL;
  rootlen = strlen(root);
  out = open_memstream(&a->buf, &a->len);
  FILE *in = __real_fopen(a->scen, "r");
  if (in) { run_stream(in); fclose(in); }
  fclose(out);
  return NULL;
}

/* usage: econf_driver <scratch-root> [scenario-file]
 *        econf_driver --threads <scratch-root> <scenario-file>...   one thread per file, private sub-roots */
int main(int argc, char **argv)
{
  umask(022);          /* files 0644, directories 0755 whatever the caller's umask is */
  if (argc >= 6 && !strcmp(argv[1], "--threads") && !strcmp(argv[2], "--pre")) {
    /* "--threads --pre <file> <root> <scenario>...": the commands of <file> (process-wide settings: sec, perms,
       confdirs) are run by the MAIN thread before the worker threads start; the settings are documented as global,
       so every worker's reads are subject to them */
    struct targ *pa = calloc(1, sizeof *pa);
    thread_mode = 1;
    mkdir(argv[4], 0755);
    snprintf(pa->rootdir, sizeof pa->rootdir, "%s/pre", argv[4]);
    snprintf(pa->scen, sizeof pa->scen, "%s", argv[3]); pa->ix = -1;
    thread_main(pa);
    free(pa->buf); free(pa);
    argv[3] = argv[1]; argv += 2; argc -= 2;
  }
  if (argc >= 4 && !strcmp(argv[1], "--threads")) {
    int k = argc - 3; thread_mode = 1;
    mkdir(argv[2], 0755);
    snprintf(shared_out, sizeof shared_out, "%s/_shared_out", argv[2]); mkdir(shared_out, 0755);
    pthread_t *th = calloc(k, sizeof *th); struct targ *ta = calloc(k, sizeof *ta);
    for (int i = 0; i < k; i++) {
      snprintf(ta[i].rootdir, sizeof ta[i].rootdir, "%s/t%d", argv[2], i);
      snprintf(ta[i].scen, sizeof ta[i].scen, "%s", argv[3 + i]); ta[i].ix = i;
      pthread_create(&th[i], NULL, thread_main, &ta[i]);
    }
    for (int i = 0; i < k; i++) pthread_join(th[i], NULL);
    for (int i = 0; i < k; i++) { fprintf(stdout, "thread %d\n", i); fwrite(ta[i].buf, 1, ta[i].len, stdout); free(ta[i].buf); }
    return 0;
  }
  out = stdout;
  if (argc < 2) { fprintf(stderr, "usage: %s root [scenario]\n", argv[0]); return 2; }
  if (!realpath(argv[1], root)) { mkdir(argv[1], 0755); if (!realpath(argv[1], root)) { perror("root"); return 2; } }
  rootlen = strlen(root);
  FILE *in = argc > 2 ? __real_fopen(argv[2], "r") : stdin;
  if (!in) { perror("scenario"); return 2; }
  if (chdir(root)) { perror("chdir"); return 2; }
  setvbuf(stdout, NULL, _IOFBF, 1 << 16);
  run_stream(in);
  return 0;
}
