"""grammar.py — random conventional files (DESIGN.md 5.1) as ASTs, aimed at the
case splits of the proofs; rendering and the expected configuration are done
by the Coq definitions (Grammar.v) through the model driver."""
from vlib import enc

DELIMS = [b"=", b":=", b" ", b" \t", b" =", b"\t =", b""]
COMMENTS = [b"#", b";", b"#;"]

def cls(dl):
    if not dl: return "0"
    w = any(c in b" \t\n\v\f\r" for c in dl); n = any(c not in b" \t\n\v\f\r" for c in dl)
    return "M" if w and n else ("W" if w else "N")

TEXT = b"abcdefgxyzABCXYZ0123456789_-.,/+*!$%&'()<>?@^`{|}~\\" + bytes([0x80, 0xe4, 0xff])

def tchars(rng, n, dl, cm, extra=b"", forbid=b""):
    pool = [c for c in TEXT + extra if c not in dl and c not in cm and c not in forbid and c != 34]
    return bytes(rng.choice(pool) for _ in range(n))

def blanks(rng, lo=0, hi=3):
    return bytes(rng.choice(b" \t") for _ in range(rng.randrange(lo, hi + 1)))

def key(rng, dl, cm):
    k = tchars(rng, rng.randrange(1, 8), dl, cm, forbid=b"[]=:")
    return k

def plain_value(rng, dl, cm, klass):
    r = rng.random()
    if r < 0.15: return b""
    n = rng.randrange(1, 4)
    words = []
    for _ in range(n):
        w = bytearray(tchars(rng, rng.randrange(1, 6), b"", cm, extra=b"=:[]"))
        words.append(bytes(w))
    v = b"".join(w + (blanks(rng, 1, 2) if i < n - 1 else b"") for i, w in enumerate(words))
    if klass == "M" and v and v[0] in dl:
        v = b"v" + v
    return v

def quoted_inner(rng, cm):
    n = rng.randrange(0, 10)
    pool = [c for c in TEXT + b" \t=:[]#; " if c != 34]
    return bytes(rng.choice(pool) for _ in range(n))

def tc(rng, dl, cm, p=0.3):
    if rng.random() > p: return None
    c = rng.choice(cm)
    n = rng.randrange(0, 8)
    pool = [x for x in TEXT + b" \t=:[]" if x not in cm and x != 34]
    return bytes([c]) + bytes(rng.choice(pool) for _ in range(n))

def kline(rng, dl, cm):
    klass = cls(dl)
    ind = blanks(rng, 0, 2) if rng.random() < 0.3 else b""
    k = key(rng, dl, cm)
    post = blanks(rng, 0, 2) if rng.random() < 0.4 else b""
    if klass == "0":
        return ("K", ind, k, b"", None, b"", "P", b"", post, None)
    nb = [c for c in dl if c not in b" \t\n\v\f\r"]
    wb = [c for c in dl if c in b" \t"]
    if klass == "N":
        b1, d, b2 = blanks(rng, 0, 2), bytes([rng.choice(nb)]), blanks(rng, 0, 2)
    elif klass == "W":
        b1 = bytearray(blanks(rng, 1, 3)); b1[rng.randrange(len(b1))] = rng.choice(wb); b1 = bytes(b1)
        d, b2 = None, b""
    else:
        if rng.random() < 0.5: b1, d, b2 = blanks(rng, 0, 2), bytes([rng.choice(nb)]), blanks(rng, 0, 2)
        else: b1, d, b2 = blanks(rng, 1, 3), None, b""
    if rng.random() < 0.3: q, v = "Q", quoted_inner(rng, cm)
    else: q, v = "P", plain_value(rng, dl, cm, klass)
    t = tc(rng, dl, cm)
    return ("K", ind, k, b1, d, b2, q, v, post, t)

def cont(rng, dl, cm):
    klass = cls(dl)
    ind = blanks(rng, 1, 3)
    if klass == "N":
        n = rng.randrange(1, 4)
        pool_forbid = bytes(dl) + b"[" 
        first = tchars(rng, 1, dl, cm, forbid=b"[")
        rest = b"".join(blanks(rng, 0, 2) + tchars(rng, rng.randrange(1, 5), dl, cm, extra=b"[]") for _ in range(n - 1))
        more = tchars(rng, rng.randrange(0, 4), dl, cm, extra=b"[]")
        text = first + more + rest
        return ("T", ind, text, blanks(rng, 0, 2) if rng.random() < 0.3 else b"", tc(rng, dl, cm, 0.25))
    first = tchars(rng, 1, b"", cm, forbid=b"[")
    text = first + tchars(rng, rng.randrange(0, 6), b"", cm, extra=b"=:[]")
    return ("T", ind, text, b"", None)

def section(rng, dl, cm):
    n = rng.randrange(1, 3)
    pool = [c for c in TEXT + b"=:" if c not in cm and c not in b"[]\""]
    words = [bytes(rng.choice(pool) for _ in range(rng.randrange(1, 5))) for _ in range(n)]
    name = b" ".join(words)
    if rng.random() < 0.5: name = rng.choice([b"A", b"B", b"sec", b"Az", b"BY", b"ab", b"bA", b"_npMe_", b"a", b"SEC", b"Azz"])     # incl. pairs with equal djb2 hashes; _npMe_ hashes like the library's internal _none_
    if name == b"_none_": name = b"n"
    return ("S", blanks(rng, 0, 2) if rng.random() < 0.2 else b"", name, blanks(rng, 0, 2) if rng.random() < 0.2 else b"")

def comment(rng, dl, cm):
    pool = TEXT + b" \t=:[]\"#;"
    text = bytes(rng.choice(pool) for _ in range(rng.randrange(0, 12)))
    return ("C", blanks(rng, 0, 2) if rng.random() < 0.3 else b"", bytes([rng.choice(cm)]), text)

def gen_file(rng, dl, cm, maxlines=10):
    klass = cls(dl)
    ls, prev = [], False
    for _ in range(rng.randrange(0, maxlines + 1)):
        r = rng.random()
        if prev and klass in "NW" and r < 0.3:
            l = cont(rng, dl, cm)
        elif r < 0.12:
            ws = b""
            if rng.random() < 0.3 and klass != "0" and (klass == "M" or not prev): ws = blanks(rng, 1, 3)
            l = ("B", ws)
        elif r < 0.27: l = comment(rng, dl, cm)
        elif r < 0.4: l = section(rng, dl, cm)
        else: l = kline(rng, dl, cm)
        ls.append(l)
        prev = l[0] in ("K", "T")
    return ls

def enc_line(l):
    if l[0] == "B": return "B:" + enc(l[1])
    if l[0] == "C": return "C:%s:%s:%s" % (enc(l[1]), enc(l[2]), enc(l[3]))
    if l[0] == "S": return "S:%s:%s:%s" % (enc(l[1]), enc(l[2]), enc(l[3]))
    if l[0] == "K":
        _, ind, k, b1, d, b2, q, v, post, t = l
        return "K:%s:%s:%s:%s:%s:%s:%s:%s:%s" % (enc(ind), enc(k), enc(b1), enc(d), enc(b2), q, enc(v), enc(post), enc(t))
    _, ind, text, post, t = l
    return "T:%s:%s:%s:%s" % (enc(ind), enc(text), enc(post), enc(t))

def enc_ast(ls):
    return "/".join(enc_line(l) for l in ls) if ls else "-"
