"""writable.py — objects with an unambiguous textual form (DESIGN.md 5.4) built by
setter histories or parsed from conventional files, for C07."""
import grammar, gens
from vlib import enc

def sval(rng, d, c, multi_ok=True):
    """an unquoted writable value: l0 [+ continuation lines]"""
    dl, cm = bytes([d]), bytes([c])
    klass = grammar.cls(dl)
    l0 = grammar.plain_value(rng, dl, cm, klass)
    if multi_ok and rng.random() < 0.25:
        n = rng.randrange(1, 3)
        lines = [l0]
        for _ in range(n):
            t = grammar.cont(rng, dl, cm)
            lines.append(t[1] + t[2])           # ind ++ text, no post, no comment
        return b"\n".join(lines)
    return l0

def history(rng, o, d, c):
    cmds = [rng.choice(["newkf %d %d %d" % (o, d, c), "newempty %d" % o])]
    if cmds[0].startswith("newempty"): cmds.append("settags %d %d %d" % (o, d, c))
    groups = [None, b"A", b"B", b"sec two", b"[A]", b"_npMe_", b"Az", b"BY"]       # _npMe_: djb2 hash of the internal _none_; Az/BY: equal hashes
    for _ in range(rng.randrange(0, 14)):
        g = rng.choice(groups)
        k = grammar.key(rng, bytes([d]), bytes([c]))
        if rng.random() < 0.3: k = rng.choice([b"k1", b"k2", b"k3"])
        kd = rng.choice(["string", "string", "string", "int", "uint64", "bool", "double", "float", "int64"])
        if kd == "string":
            cmds.append("set %d string %s %s %s 0" % (o, enc(g), enc(k), enc(sval(rng, d, c))))
        else:
            cmds.append(gens.set_cmd(rng, o, kd=kd, g=g, k=k))
    return cmds

def from_file(rng, o, d, c):
    dl, cm = bytes([d]), bytes([c])
    ls = grammar.gen_file(rng, dl, cm, maxlines=10)
    return ls, dl, cm

def compact_file(rng, d, c):
    """a dense conventional file: entries directly below each other, many of them
    without value (stored as a missing value), few comments — the shape in which a
    writer that changes the text of value-less keys shows"""
    dl, cm = bytes([d]), bytes([c])
    out = []
    for _ in range(rng.randrange(2, 9)):
        r = rng.random()
        if r < 0.12: out.append(b"[" + rng.choice([b"main", b"A", b"B b", b"_npMe_"]) + b"]")
        elif r < 0.17: out.append(cm + b" note")
        elif r < 0.2: out.append(b"")
        else:
            k = grammar.key(rng, dl, cm)
            r2 = rng.random()
            if r2 < 0.4: v = b""
            elif r2 < 0.5: v = b'""'
            else: v = grammar.plain_value(rng, dl, cm, grammar.cls(dl))
            sep = dl if d == 32 else rng.choice([dl, b" " + dl + b" "])
            out.append(k + sep + v + (b" " + cm + b"tc" if rng.random() < 0.1 else b""))
    return b"\n".join(out) + b"\n"
