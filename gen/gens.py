"""gens.py — scenario generators, all randomness from the rng handed in."""
import os, sys
sys.path.insert(0, os.path.join(os.path.dirname(os.path.abspath(__file__)), "..", "tools"))
from vlib import enc

DELIMS = [b"=", b":=", b" ", b" \t", b" =", b"\t =", b""]
COMMENTS = [b"#", b";", b"#;"]

STRUCT = b"=:#;[]\" \t\n\\\"'"
def rand_bytes_file(rng, maxlines=8):
    """arbitrary bytes, biased to structural characters"""
    mode = rng.randrange(4)
    out = bytearray()
    n = rng.randrange(0, maxlines + 1)
    for _ in range(n):
        ln = rng.randrange(0, 14)
        for _ in range(ln):
            r = rng.random()
            if r < 0.45: out.append(rng.choice(STRUCT))
            elif r < 0.85: out.append(rng.choice(b"abkxyz019AZ_-.,"))
            elif r < 0.93: out.append(rng.randrange(256))
            elif r < 0.96: out.append(0)
            else: out.append(rng.choice(b"\r\v\f"))
        if mode != 3 or rng.random() < 0.8:
            out.append(10)
    if out and rng.random() < 0.2 and out[-1] == 10:
        out.pop()
    return bytes(out)

def mutate_conventional(rng):
    """a mostly conventional file with a few random mutations"""
    lines = []
    for _ in range(rng.randrange(1, 9)):
        k = rng.randrange(10)
        if k == 0: lines.append(b"")
        elif k == 1: lines.append(b"#" + rng.choice([b" note", b"x=1", b" a # b", b""]))
        elif k == 2: lines.append(b"[" + rng.choice([b"A", b"B", b"sec one"]) + b"]")
        elif k == 3: lines.append(b"  " + rng.choice([b"cont", b"more text", b"x y"]))
        else:
            key = rng.choice([b"a", b"b", b"key", b"k2"])
            sep = rng.choice([b"=", b" = ", b" ", b":", b"\t", b" := "])
            val = rng.choice([b"1", b"v w", b"\"q s\"", b"", b"x # c", b"\"u", b"-5", b"yes"])
            lines.append(key + sep + val)
    data = bytearray(b"\n".join(lines) + b"\n")
    for _ in range(rng.randrange(0, 3)):
        if not data: break
        i = rng.randrange(len(data))
        op = rng.randrange(3)
        if op == 0: data[i] = rng.choice(STRUCT)
        elif op == 1: del data[i]
        else: data.insert(i, rng.choice(STRUCT))
    return bytes(data)

def parse_cmd(obj, path, content, dl, cm, py=False, jn=False):
    return "parse %d %s %s %s %s %d %d" % (obj, enc(path), enc(content), enc(dl), enc(cm), int(py), int(jn))
