"""gens.py — scenario generators, all randomness from the rng handed in."""
import os, sys
sys.path.insert(0, os.path.join(os.path.dirname(os.path.abspath(__file__)), "..", "tools"))
from vlib import enc

DELIMS = [b"=", b":=", b" ", b" \t", b" =", b"\t =", b""]
COMMENTS = [b"#", b";", b"#;"]

STRUCT = b"=:#;[]\" \t\n\\\"'"
def rand_bytes_file(rng, maxlines=8):
    """arbitrary bytes, biased to structural characters"""
    mode = rng.randrange(4)
    out = bytearray()
    n = rng.randrange(0, maxlines + 1)
    for _ in range(n):
        ln = rng.randrange(0, 14)
        for _ in range(ln):
            r = rng.random()
            if r < 0.45: out.append(rng.choice(STRUCT))
            elif r < 0.85: out.append(rng.choice(b"abkxyz019AZ_-.,"))
            elif r < 0.93: out.append(rng.randrange(256))
            elif r < 0.96: out.append(0)
            else: out.append(rng.choice(b"\r\v\f"))
        if mode != 3 or rng.random() < 0.8:
            out.append(10)
    if out and rng.random() < 0.2 and out[-1] == 10:
        out.pop()
    return bytes(out)

def mutate_conventional(rng):
    """a mostly conventional file with a few random mutations"""
    lines = []
    for _ in range(rng.randrange(1, 9)):
        k = rng.randrange(10)
        if k == 0: lines.append(b"")
        elif k == 1: lines.append(b"#" + rng.choice([b" note", b"x=1", b" a # b", b""]))
        elif k == 2: lines.append(b"[" + rng.choice([b"A", b"B", b"sec one", b"[A]", b"[]", b"[B] ]", b"A"]) + b"]")
        elif k == 3: lines.append(b"  " + rng.choice([b"cont", b"more text", b"x y"]))
        else:
            key = rng.choice([b"a", b"b", b"key", b"k2"])
            sep = rng.choice([b"=", b" = ", b" ", b":", b"\t", b" := "])
            val = rng.choice([b"1", b"v w", b"\"q s\"", b"", b"x # c", b"\"u", b"-5", b"yes"])
            lines.append(key + sep + val)
    data = bytearray(b"\n".join(lines) + b"\n")
    for _ in range(rng.randrange(0, 3)):
        if not data: break
        i = rng.randrange(len(data))
        op = rng.randrange(3)
        if op == 0: data[i] = rng.choice(STRUCT)
        elif op == 1: del data[i]
        else: data.insert(i, rng.choice(STRUCT))
    return bytes(data)

def parse_cmd(obj, path, content, dl, cm, py=False, jn=False):
    return "parse %d %s %s %s %s %d %d" % (obj, enc(path), enc(content), enc(dl), enc(cm), int(py), int(jn))

# ---------------------------------------------------------------- histories (5.6)
import floatoracle as _fo
SECTIONS = [None, b"", b"A", b"[A]", b"B", b"[B]", b"_none_", b"C c", b"[D", b"[A]b]", b"Ab", b"C", b"_none_2", b"Az", b"BY", b"[]", b"[", b"]", b"[ ]", b"_npMe_", b"a", b"AB", b"L" * 299 + b"1", b"L" * 299 + b"2"]      # ... names differing in letter case only, names of 300 bytes differing in the last one   # incl. names that are prefixes of other names
KEYS = [b"k1", b"k2", b"k3", b"k4", b"key five", b"az", b"bY", b"_none_", b"k1 ", b"k2\t"]      # the last two have equal djb2 hashes
BADKEYS = [None, b""]
STRVALS = [b'  "x y"', b' "q', b"\t\"t\"", b"v", b"", b"two words", b"Yes Please", b"-17", b"0x1F", b"077", b"1e3", b"true", b"NO", b"_none_",
           b"4294967296", b"2147483648", b"-1", b"99999999999999999999999", b" 12", b"12 ", b"p-", b"g@lse", b"nan", b"inf", b"1e-320", b"1e999", b"0"]        # incl. texts whose float conversion leaves errno set
BOOLWORDS = [b"yes", b"no", b"true", b"false", b"1", b"0", b"YES", b"No", b"tRuE", b"FALSE", b"", b"maybe", b"_none_", b"p-", None, b"10", b"2"]
KINDS = ["string", "int", "int64", "uint", "uint64", "bool", "float", "double"]

def rand_int(rng, kd):
    lo, hi = {"int": (-2**31, 2**31 - 1), "int64": (-2**63, 2**63 - 1), "uint": (0, 2**32 - 1), "uint64": (0, 2**64 - 1)}[kd]
    r = rng.random()
    if r < 0.3: return rng.choice([lo, hi, lo + 1, hi - 1, 0, 1])
    if r < 0.6: return rng.randint(max(lo, -1000), min(hi, 1000))
    return rng.randint(lo, hi)

def set_cmd(rng, o, kd=None, g="?", k="?"):
    kd = kd or rng.choice(KINDS)
    if g == "?": g = rng.choice(SECTIONS)
    if k == "?": k = rng.choice(KEYS) if rng.random() < 0.93 else rng.choice(BADKEYS)
    text, z = None, 0
    if kd == "string": text = rng.choice(STRVALS) if rng.random() < 0.95 else None
    elif kd == "bool": text = rng.choice(BOOLWORDS)
    elif kd in ("float", "double"):
        bits = 32 if kd == "float" else 64
        z = rng.getrandbits(bits) if rng.random() < 0.7 else rng.choice([0, 1, 1 << (bits - 1), (1 << (bits - 1)) - 1])
        text = _fo.fmt_g(z, bits)
    else: z = rand_int(rng, kd)
    return "set %d %s %s %s %s %d" % (o, kd, enc(g), enc(k), enc(text), z)

def get_cmd(rng, o, g="?", k="?", kd=None):
    kd = kd or rng.choice(KINDS)
    if g == "?": g = rng.choice(SECTIONS)
    if k == "?": k = rng.choice(KEYS) if rng.random() < 0.93 else rng.choice(BADKEYS)
    d = "-"
    if rng.random() < 0.4:
        if kd == "string": d = "s:" + enc(rng.choice([b"dflt", b"", None]))
        elif kd == "bool": d = "b:%d" % rng.randrange(2)
        elif kd in ("int", "int64", "uint", "uint64"): d = "i:%d" % rand_int(rng, kd)
        elif kd in ("float", "double"): d = "f:" + enc(rng.choice([b"1.5", b"-0.1", b"3.4028235e38", b"1e-320", b"0", b"16777217", b"1e400"]))
    return "get %d %s %s %s %s" % (o, kd, enc(g), enc(k), d)

def start_cmd(rng, o):
    r = rng.randrange(5)
    if r == 0: return "newini %d" % o
    if r == 1: return "newkf %d %d %d" % (o, rng.choice([61, 58, 32]), rng.choice([35, 59]))
    if r == 2: return "newempty %d" % o
    return parse_cmd(o, b"/d/start.conf", rng.choice(START_FILES), b"=", b"#")

START_FILES = [b"k1 =\n    \"folded quoted\"\nk2 =\n\t\"x\n[A]\nk3 = \"  padded  \"\n", b"k1=file1\n[A]\nk2 = \"q v\" # c\nk1=a1\n[B]\nk3=3\n", b"k1=x\nk1=y\n[A]\n[E]\n[A]\nk4=Yes\n", b"# only a comment\n", b"",
               # sections only (no group-less key): the internal list of sections starts with a named one
               b"[A]\nk1=a\n[B]\nk2=b\n", b"[B]\n[A]\nk1=1\nk2=2\nk3=3\nk4=4\n[C c]\nk1=c\n", b"[A]\n", b"[A]\nk1=1\n[A]\nk2=2\n",
               # keys without any value (stored as a missing value), sections whose names hash alike
               b"k1\n\nk2\n[A]\nk3\n\nk4\n[B]\nk1\n", b"[Az]\nk1=a\n[BY]\nk1=b\nk2=c\n"]

def start_cmds(rng, o):
    """like start_cmd, and also objects that are the result of a merge of two parsed files"""
    if rng.random() < 0.8: return [start_cmd(rng, o)]
    a, b = rng.choice(START_FILES), rng.choice(START_FILES)
    return [parse_cmd(o + 7, b"/d/m1.conf", a, b"=", b"#"), parse_cmd(o + 8, b"/d/m2.conf", b, b"=", b"#"),
            "merge %d %d %d" % (o, o + 7, o + 8)]
