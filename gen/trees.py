"""trees.py — configuration trees and parameter shapes (DESIGN.md 5.5)."""
from vlib import enc

NAMES = [b"10-a.conf", b"9-b.conf", b"B.conf", b"a.conf", b"x.conf", b"noext", b"y.txt", b".hid.conf", b".conf", b"z.conf", b"a.conf.bak",
         b"\xc3\xa9cole.conf", b"\xff.conf", b"~last.conf", b"zz.conf", b"a\x80.conf",
         b"40-x.conf.conf", b"20-site.config.conf", b"c.conf-o.conf", b"conf.conf", b"d.confconf",
         b"50-ab.conf", b"50-bA.conf"]      # two different names with equal djb2 hashes;      # the suffix more than once in the name          # incl. names with bytes above 127 (byte-wise order)

def content(rng, tag):
    """a small conventional file whose values identify where they come from"""
    lines = []
    for k in rng.sample([b"k1", b"k2", b"k3"], rng.randrange(0, 3)):
        lines.append(k + b"=" + tag + b"-" + k)
    for sec in rng.sample([b"A", b"B"], rng.randrange(0, 3)):
        lines.append(b"[" + sec + b"]")
        for k in rng.sample([b"k1", b"k2", b"k4"], rng.randrange(0, 3)):
            lines.append(k + b" = " + tag + b"-" + sec + b"-" + k)
    if rng.random() < 0.15: lines.insert(0, b"# " + tag)
    if rng.random() < 0.2:
        # shapes on which JOIN_SAME_ENTRIES / PYTHON_STYLE matter: a key defined again, indented lines with a delimiter or a comment character
        lines += [b"[R]", b"rep=" + tag + b"-1", b"rep=" + tag + b"-2", b"py=" + tag, b"  more = x", b"\tlast # tail"]
    return b"\n".join(lines) + (b"\n" if lines else b"")

def fsfile(p, c, uid=0, gid=0): return "fsfile %s %s %d %d" % (enc(p), enc(c), uid, gid)
def fslink(p, t, uid=0, gid=0): return "fslink %s %s %d %d" % (enc(p), enc(t), uid, gid)
def fsdir(p, uid=0, gid=0): return "fsdir %s %d %d" % (enc(p), uid, gid)

def populate(rng, layers, name, sfx, confdirs, bad=None, owners=False, links=False):
    """layers: list of directories (lowest priority first).  Returns (cmds, consulted-ish list)"""
    cmds = []
    suffix = (b"." + sfx if sfx and not sfx.startswith(b".") else (sfx or b""))
    for li, d in enumerate(layers):
        tag = b"L%d" % li
        cmds.append(fsdir(d))
        kind = rng.choice(["absent", "absent", "regular", "regular", "empty", "devnull", "dangling", "dir"])
        p = d + b"/" + name + suffix
        ug = lambda: ((rng.choice([0, 1234]), rng.choice([0, 4321])) if owners else (0, 0))
        if kind == "regular": cmds.append(fsfile(p, content(rng, tag + b"main"), *ug()))
        elif kind == "empty": cmds.append(fsfile(p, b"", *ug()))
        elif kind == "devnull": cmds.append(fslink(p, b"/dev/null", *ug()))
        elif kind == "dangling": cmds.append(fslink(p, b"/nowhere/x", *ug()))
        elif kind == "dir": cmds.append(fsdir(p))
        for cd in (confdirs or [suffix + b".d"]):
            dd = d + b"/" + name + cd
            if kind not in ("absent", "dir") and (dd + b"/").startswith(p + b"/"):
                continue          # "<name>/conf.d" below a main file "<name>" that is no directory: cannot exist (scandir: ENOTDIR)
            if rng.random() < 0.75:
                cmds.append(fsdir(dd))
                for nm in rng.sample(NAMES, rng.randrange(0, 5)):
                    fp = dd + b"/" + nm
                    if links and rng.random() < 0.3:
                        tgt = d + b"/targets-" + nm
                        cmds.append(fsfile(tgt, content(rng, tag + b"-" + nm), *ug()))
                        cmds.append(fslink(fp, tgt, *ug()))
                    else:
                        cmds.append(fsfile(fp, content(rng, tag + b"-" + nm), *ug()))
    return cmds
